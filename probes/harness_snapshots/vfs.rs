use super::*;

#[kani::proof]
#[kani::unwind(8)]
fn compute_start_spec() {
    let n: usize = kani::any();
    kani::assume(n <= 3);
    let sizes: [usize; 3] = kani::any();
    for i in 0..3 { kani::assume(sizes[i] >= 1 && sizes[i] <= (1usize << 40)); }
    let sp = ContentStartpoints::from_sizes(sizes[..n].iter().map(|s| Ok(*s))).unwrap();
    let offset: usize = kani::any();
    let (i, off) = sp.compute_start(offset);
    if n == 0 { assert!(i == 0 && off == 0); return; }
    let mut start = 0usize;
    let mut total = 0usize;
    for k in 0..n { if k < i { start += sizes[k]; } total += sizes[k]; }
    if offset < total {
        assert!(i < n);
        assert!(start + off == offset);
        assert!(off < sizes[i]);
    } else {
        // reading beyond EOF must not yield data: either index beyond content or offset beyond last blob
        assert!(i >= n || (i == n - 1 && off >= sizes[i]));
    }
}

#[kani::proof]
fn ice_probe_catch_unwind() {
    let r = std::panic::catch_unwind(|| 1u8);
    assert!(r.is_ok());
}

#[kani::proof]
fn ice_probe_thread_spawn() {
    let h = std::thread::spawn(|| 1u8);
    std::mem::forget(h);
}
