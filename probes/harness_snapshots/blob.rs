use super::*;

#[kani::proof]
fn coalesce_covers_members() {
    let a = BlobLocation { offset: kani::any(), length: kani::any(), uncompressed_length: None };
    let b = BlobLocation { offset: kani::any(), length: kani::any(), uncompressed_length: None };
    // packs are < 4 GiB: blobs lie inside a pack
    kani::assume(u64::from(a.offset) + u64::from(a.length) <= u64::from(u32::MAX));
    kani::assume(u64::from(b.offset) + u64::from(b.length) <= u64::from(u32::MAX));
    let la = BlobLocations::from_blob_location(a, ());
    let lb = BlobLocations::from_blob_location(b, ());
    if la.can_coalesce(&lb) {
        let off = la.offset;
        let len = b.offset + b.length - la.offset;
        assert!(a.offset >= off && a.offset + a.length <= off + len);
        assert!(b.offset >= off && b.offset + b.length <= off + len);
        assert!(len <= constants::LIMIT_PACK_READ);
    }
    std::mem::forget(la);
    std::mem::forget(lb);
}
