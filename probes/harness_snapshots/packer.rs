use super::*;

#[kani::proof]
#[kani::unwind(34)]
fn pack_size_no_overflow() {
    let ps = PackSizer {
        default_size: kani::any(),
        grow_factor: kani::any(),
        size_limit: kani::any(),
        current_size: kani::any(),
        min_packsize_tolerate_percent: kani::any(),
        max_packsize_tolerate_percent: kani::any(),
    };
    let s = ps.pack_size();
    assert!(s <= constants::MAX_SIZE);
}

fn mk_id(b: u8) -> BlobId { let mut r = [0u8; 32]; r[0] = b; BlobId::from(crate::id::Id::new(r)) }
fn stub_systime_now() -> SystemTime { SystemTime::UNIX_EPOCH }

#[kani::proof]
#[kani::unwind(34)]
#[kani::stub(std::time::SystemTime::now, stub_systime_now)]
#[kani::stub(std::backtrace::Backtrace::capture, crate::error::verif_harness::stub_backtrace_capture)]
fn basic_packer_accounting() {
    let mut p = BasicPacker::new(BlobType::Data, PackSizer::fixed(kani::any()));
    let d0: &'static mut [u8; 3] = Box::leak(Box::new(kani::any()));
    let d1: &'static mut [u8; 2] = Box::leak(Box::new(kani::any()));
    let i0: u8 = kani::any(); let i1: u8 = kani::any();
    kani::assume(i0 < 3 && i1 < 3);
    let ul: u32 = kani::any();
    p.add_raw(Bytes::from_static(&*d0), &mk_id(i0), 3, NonZeroU32::new(ul)).unwrap();
    p.add_raw(Bytes::from_static(&*d1), &mk_id(i1), 2, None).unwrap();
    let blobs = &p.index.blobs;
    assert!(blobs[0].location.offset == 0 && blobs[0].location.length == 3);
    if i0 == i1 {
        assert!(blobs.len() == 1 && p.size == 3 && p.count == 1);
    } else {
        assert!(blobs.len() == 2 && p.size == 5 && p.count == 2);
        assert!(blobs[1].location.offset == 3 && blobs[1].location.length == 2);
        assert!(blobs[1].id == mk_id(i1));
    }
    std::mem::forget(p);
}
