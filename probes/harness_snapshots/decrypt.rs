use super::*;
use std::sync::atomic::{AtomicBool, Ordering::SeqCst};

// ideal-AEAD model: nonce(16 zero bytes) || (p XOR 0x5a) || tag(16 x 0xA5); decrypt accepts exactly that framing
#[derive(Clone, Copy, Debug)]
pub(crate) struct ModelKey;
impl CryptoKey for ModelKey {
    fn decrypt_data(&self, data: &[u8]) -> RusticResult<Vec<u8>> {
        if data.len() < 32 { return Err(RusticError::new(ErrorKind::Cryptography, "short")); }
        let n = data.len() - 32;
        let mut i = 0;
        while i < 16 { if data[16 + n + i] != 0xA5 || data[i] != 0 { return Err(RusticError::new(ErrorKind::Cryptography, "mac")); } i += 1; }
        let mut out = Vec::with_capacity(4);
        let mut j = 0;
        while j < n { out.push(data[16 + j] ^ 0x5a); j += 1; }
        Ok(out)
    }
    fn encrypt_data(&self, data: &[u8]) -> RusticResult<Vec<u8>> {
        let mut out = Vec::with_capacity(40);
        let mut i = 0; while i < 16 { out.push(0); i += 1; }
        let mut j = 0; while j < data.len() { out.push(data[j] ^ 0x5a); j += 1; }
        let mut k = 0; while k < 16 { out.push(0xA5); k += 1; }
        Ok(out)
    }
}
#[derive(Debug)]
struct Sink { wrote: AtomicBool }
impl ReadBackend for Sink {
    fn location(&self) -> String { String::new() }
    fn list_with_size(&self, _t: FileType) -> RusticResult<Vec<(Id, u32)>> { Ok(Vec::new()) }
    fn read_full(&self, _t: FileType, _i: &Id) -> RusticResult<Bytes> { Ok(Bytes::new()) }
    fn read_partial(&self, _t: FileType, _i: &Id, _c: bool, _o: u32, _l: u32) -> RusticResult<Bytes> { Ok(Bytes::new()) }
    fn warmup_path(&self, _t: FileType, _i: &Id) -> String { String::new() }
}
impl WriteBackend for Sink {
    fn create(&self) -> RusticResult<()> { Ok(()) }
    fn write_bytes(&self, _t: FileType, _i: &Id, _c: bool, _content: BytesList) -> RusticResult<()> { self.wrote.store(true, SeqCst); Ok(()) }
    fn remove(&self, _t: FileType, _i: &Id, _c: bool) -> RusticResult<()> { Ok(()) }
}

#[kani::proof]
#[kani::unwind(40)]
#[kani::stub(std::backtrace::Backtrace::capture, crate::error::verif_harness::stub_backtrace_capture)]
fn blob_framing_roundtrip_uncompressed() {
    let be = DecryptBackend::new(Arc::new(Sink { wrote: AtomicBool::new(false) }), ModelKey);
    let mut be = be;
    be.set_extra_verify(kani::any());
    let data: [u8; 3] = kani::any();
    let r = be.process_data(&data);
    match r {
        Ok((enc, len, ul)) => {
            assert!(len == 3);
            assert!(ul.is_none());
            let back = be.read_encrypted_from_partial(&enc, ul);
            match back {
                Ok(b) => { assert!(b.len() == 3 && b[0] == data[0] && b[1] == data[1] && b[2] == data[2]); std::mem::forget(b); }
                Err(e) => { std::mem::forget(e); assert!(false); }
            }
            std::mem::forget(enc);
        }
        Err(e) => { std::mem::forget(e); assert!(false); }
    }
    std::mem::forget(be);
}
