use super::*;
use std::sync::atomic::{AtomicU8, AtomicBool, Ordering::SeqCst};

// one slot per (store); we track a single (tpe,id) key: presence + content tag
#[derive(Debug)]
struct Mock {
    present: AtomicBool,
    tag: AtomicU8,
    fail_write: bool,
    fail_remove: bool,
}
impl Mock {
    fn new(present: bool, tag: u8, fail_write: bool, fail_remove: bool) -> Self {
        Self { present: AtomicBool::new(present), tag: AtomicU8::new(tag), fail_write, fail_remove }
    }
}
impl ReadBackend for Mock {
    fn location(&self) -> String { String::new() }
    fn list_with_size(&self, _tpe: FileType) -> RusticResult<Vec<(Id, u32)>> { Ok(Vec::new()) }
    fn read_full(&self, _tpe: FileType, _id: &Id) -> RusticResult<Bytes> { Ok(Bytes::new()) }
    fn read_partial(&self, _tpe: FileType, _id: &Id, _c: bool, _o: u32, _l: u32) -> RusticResult<Bytes> { Ok(Bytes::new()) }
    fn warmup_path(&self, _tpe: FileType, _id: &Id) -> String { String::new() }
}
impl WriteBackend for Mock {
    fn create(&self) -> RusticResult<()> { Ok(()) }
    fn write_bytes(&self, _tpe: FileType, _id: &Id, _c: bool, content: BytesList) -> RusticResult<()> {
        if self.fail_write {
            return Err(crate::error::RusticError::new(crate::error::ErrorKind::Backend, "injected"));
        }
        self.present.store(true, SeqCst);
        self.tag.store(content.size() as u8, SeqCst);
        Ok(())
    }
    fn remove(&self, _tpe: FileType, _id: &Id, _c: bool) -> RusticResult<()> {
        if self.fail_remove {
            return Err(crate::error::RusticError::new(crate::error::ErrorKind::Backend, "injected"));
        }
        self.present.store(false, SeqCst);
        Ok(())
    }
}

fn any_tpe() -> FileType {
    match kani::any::<u8>() % 5 {
        0 => FileType::Config,
        1 => FileType::Index,
        2 => FileType::Key,
        3 => FileType::Snapshot,
        _ => FileType::Pack,
    }
}

#[kani::proof]
#[kani::unwind(4)]
#[kani::stub(std::backtrace::Backtrace::capture, crate::error::verif_harness::stub_backtrace_capture)]
fn hotcold_step_keeps_invariant() {
    let tpe = any_tpe();
    kani::assume(tpe != FileType::Config);
    let cacheable: bool = kani::any();
    kani::assume(tpe == FileType::Pack || !cacheable || true);
    let hot_eligible = cacheable || tpe != FileType::Pack;
    // pre-state satisfying invariant: cold present => hot present with equal tag (if eligible); not eligible => hot absent
    let cold_p: bool = kani::any();
    let hot_p: bool = kani::any();
    let cold_t: u8 = kani::any();
    let hot_t: u8 = kani::any();
    if hot_eligible {
        kani::assume(!cold_p || (hot_p && hot_t == cold_t));
    } else {
        kani::assume(!hot_p);
    }
    let cold = Arc::new(Mock::new(cold_p, cold_t, kani::any(), kani::any()));
    let hot = Arc::new(Mock::new(hot_p, hot_t, kani::any(), kani::any()));
    let be = HotColdBackend { be: cold.clone(), be_hot: hot.clone() };
    let id = Id::default();
    if kani::any() {
        let data = Bytes::from_static(&[7u8]);
        let r = be.write_bytes(tpe, &id, cacheable, data.into());
        if r.is_ok() {
            assert!(cold.present.load(SeqCst));
        }
        std::mem::forget(r);
    } else {
        let r = be.remove(tpe, &id, cacheable);
        if r.is_ok() {
            assert!(!cold.present.load(SeqCst));
        }
        std::mem::forget(r);
    }
    let (cp, hp) = (cold.present.load(SeqCst), hot.present.load(SeqCst));
    if hot_eligible {
        assert!(!cp || (hp && hot.tag.load(SeqCst) == cold.tag.load(SeqCst)));
    } else {
        assert!(!hp);
    }
    std::mem::forget(be);
    std::mem::forget(cold);
    std::mem::forget(hot);
}

#[kani::proof]
#[kani::unwind(4)]
#[kani::stub(std::backtrace::Backtrace::capture, crate::error::verif_harness::stub_backtrace_capture)]
fn hotcold_step_nofault() {
    let tpe = any_tpe();
    kani::assume(tpe != FileType::Config);
    let cacheable: bool = kani::any();
    kani::assume(tpe == FileType::Pack || !cacheable || true);
    let hot_eligible = cacheable || tpe != FileType::Pack;
    // pre-state satisfying invariant: cold present => hot present with equal tag (if eligible); not eligible => hot absent
    let cold_p: bool = kani::any();
    let hot_p: bool = kani::any();
    let cold_t: u8 = kani::any();
    let hot_t: u8 = kani::any();
    if hot_eligible {
        kani::assume(!cold_p || (hot_p && hot_t == cold_t));
    } else {
        kani::assume(!hot_p);
    }
    let cold = Arc::new(Mock::new(cold_p, cold_t, false, false));
    let hot = Arc::new(Mock::new(hot_p, hot_t, false, false));
    let be = HotColdBackend { be: cold.clone(), be_hot: hot.clone() };
    let id = Id::default();
    if kani::any() {
        let data = Bytes::from_static(&[7u8]);
        let r = be.write_bytes(tpe, &id, cacheable, data.into());
        if r.is_ok() {
            assert!(cold.present.load(SeqCst));
        }
        std::mem::forget(r);
    } else {
        let r = be.remove(tpe, &id, cacheable);
        if r.is_ok() {
            assert!(!cold.present.load(SeqCst));
        }
        std::mem::forget(r);
    }
    let (cp, hp) = (cold.present.load(SeqCst), hot.present.load(SeqCst));
    if hot_eligible {
        assert!(!cp || (hp && hot.tag.load(SeqCst) == cold.tag.load(SeqCst)));
    } else {
        assert!(!hp);
    }
    std::mem::forget(be);
    std::mem::forget(cold);
    std::mem::forget(hot);
}
