use super::*;
use crate::blob::BlobId;

fn any_blob() -> IndexBlob {
    let raw: [u8; 32] = kani::any();
    let ul: u32 = kani::any();
    IndexBlob {
        id: BlobId::from(Id::new(raw)),
        tpe: if kani::any() { BlobType::Tree } else { BlobType::Data },
        location: BlobLocation {
            offset: 0,
            length: kani::any(),
            uncompressed_length: NonZeroU32::new(ul),
        },
    }
}

fn stub_format(_a: std::fmt::Arguments<'_>) -> String { String::new() }

#[kani::proof]
#[kani::unwind(45)]
#[kani::stub(alloc::fmt::format, stub_format)]
fn header_roundtrip_2() {
    let mut b0 = any_blob();
    let mut b1 = any_blob();
    kani::assume(b0.location.length < 1 << 30 && b1.location.length < 1 << 30);
    b0.location.offset = 0;
    b1.location.offset = b0.location.length;
    let blobs = [b0, b1];
    let bin = PackHeaderRef(&blobs).to_binary().unwrap();
    assert!(bin.len() as u32 + 32 == PackHeaderRef(&blobs).size());
    let back = PackHeader::from_binary(&bin).unwrap().into_blobs();
    assert!(back.len() == 2);
    assert!(back[0] == blobs[0]);
    assert!(back[1] == blobs[1]);
}

#[kani::proof]
#[kani::unwind(45)]
#[kani::stub(alloc::fmt::format, stub_format)]
fn header_roundtrip_1_data() {
    let raw: [u8; 32] = kani::any();
    let b0 = IndexBlob {
        id: BlobId::from(Id::new(raw)),
        tpe: BlobType::Data,
        location: BlobLocation { offset: 0, length: kani::any(), uncompressed_length: None },
    };
    let blobs = [b0];
    let bin = PackHeaderRef(&blobs).to_binary().unwrap();
    assert!(bin.len() == 37);
    let back = PackHeader::from_binary(&bin);
    match back {
        Ok(h) => { let v = h.into_blobs(); assert!(v.len() == 1); assert!(v[0] == blobs[0]); std::mem::forget(v); }
        Err(e) => { std::mem::forget(e); assert!(false); }
    }
}

#[kani::proof]
#[kani::unwind(45)]
#[kani::stub(alloc::fmt::format, stub_format)]
fn header_write_only_2() {
    let b0 = any_blob();
    let b1 = any_blob();
    let blobs = [b0, b1];
    let r = PackHeaderRef(&blobs).to_binary();
    match r {
        Ok(bin) => {
            assert!(bin.len() as u32 + 32 == PackHeaderRef(&blobs).size());
            // first entry: type byte and LE length
            let t0: u8 = match (b0.location.uncompressed_length.is_some(), b0.tpe) { (false, BlobType::Data) => 0, (false, BlobType::Tree) => 1, (true, BlobType::Data) => 2, (true, BlobType::Tree) => 3 };
            assert!(bin[0] == t0);
            assert!(u32::from_le_bytes([bin[1], bin[2], bin[3], bin[4]]) == b0.location.length);
            std::mem::forget(bin);
        }
        Err(e) => { std::mem::forget(e); assert!(false); }
    }
}
