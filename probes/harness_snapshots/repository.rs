use super::*;
use std::sync::atomic::{AtomicBool, Ordering::SeqCst};
use crate::backend::{BytesList, FileType, ReadBackend, WriteBackend};
use crate::crypto::aespoly1305::Key;
use crate::id::Id;

#[derive(Debug)]
pub(crate) struct FlagBackend { pub touched: AtomicBool }
impl ReadBackend for FlagBackend {
    fn location(&self) -> String { String::new() }
    fn list_with_size(&self, _tpe: FileType) -> RusticResult<Vec<(Id, u32)>> { Ok(Vec::new()) }
    fn read_full(&self, _tpe: FileType, _id: &Id) -> RusticResult<Bytes> { Ok(Bytes::new()) }
    fn read_partial(&self, _tpe: FileType, _id: &Id, _c: bool, _o: u32, _l: u32) -> RusticResult<Bytes> { Ok(Bytes::new()) }
    fn warmup_path(&self, _tpe: FileType, _id: &Id) -> String { String::new() }
}
impl WriteBackend for FlagBackend {
    fn create(&self) -> RusticResult<()> { self.touched.store(true, SeqCst); Ok(()) }
    fn write_bytes(&self, _tpe: FileType, _id: &Id, _c: bool, _content: BytesList) -> RusticResult<()> { self.touched.store(true, SeqCst); Ok(()) }
    fn remove(&self, _tpe: FileType, _id: &Id, _c: bool) -> RusticResult<()> { self.touched.store(true, SeqCst); Ok(()) }
}

pub(crate) fn open_repo(be: Arc<FlagBackend>, config: ConfigFile) -> Repository<OpenStatus> {
    let dynbe: Arc<dyn WriteBackend> = be;
    Repository {
        name: String::new(),
        be: dynbe.clone(),
        be_hot: None,
        be_cold: dynbe.clone(),
        opts: RepositoryOptions::default(),
        pb: Arc::new(NoProgressBars {}),
        status: OpenStatus { cache: None, dbe: DecryptBackend::new(dynbe, Key::default()), config, key_id: None },
    }
}

#[kani::proof]
#[kani::unwind(40)]
#[kani::stub(std::backtrace::Backtrace::capture, crate::error::verif_harness::stub_backtrace_capture)]
fn append_only_delete_snapshots() {
    let be = Arc::new(FlagBackend { touched: AtomicBool::new(false) });
    let mut config = ConfigFile::default();
    config.append_only = Some(true);
    let repo = open_repo(be.clone(), config);
    let ids = [SnapshotId::default()];
    let r = repo.delete_snapshots(&ids);
    assert!(r.is_err());
    assert!(!be.touched.load(SeqCst));
    std::mem::forget(r);
    std::mem::forget(repo);
    std::mem::forget(be);
}

#[kani::proof]
#[kani::unwind(40)]
#[kani::stub(std::backtrace::Backtrace::capture, crate::error::verif_harness::stub_backtrace_capture)]
fn append_only_apply_config() {
    let be = Arc::new(FlagBackend { touched: AtomicBool::new(false) });
    let mut config = ConfigFile::default();
    config.version = 2;
    config.append_only = Some(true);
    let mut repo = open_repo(be.clone(), config);
    let mut opts = ConfigOptions::default();
    opts.set_append_only = if kani::any() { None } else { Some(true) };
    opts.set_compression = if kani::any() { Some(kani::any()) } else { None };
    let r = repo.apply_config(&opts);
    assert!(r.is_err());
    assert!(!be.touched.load(SeqCst));
    std::mem::forget(r);
    std::mem::forget(repo);
    std::mem::forget(be);
}

#[kani::proof]
#[kani::unwind(40)]
fn ice_probe_open_repo_only() {
    let be = Arc::new(FlagBackend { touched: AtomicBool::new(false) });
    let mut config = ConfigFile::default();
    config.append_only = Some(true);
    let repo = open_repo(be.clone(), config);
    assert!(repo.config().append_only == Some(true));
    std::mem::forget(repo);
    std::mem::forget(be);
}
