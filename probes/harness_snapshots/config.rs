use super::*;

fn any_opt_u32() -> Option<u32> { if kani::any() { Some(kani::any()) } else { None } }
fn any_opt_usize() -> Option<usize> { if kani::any() { Some(kani::any()) } else { None } }
fn any_opt_bool() -> Option<bool> { if kani::any() { Some(kani::any()) } else { None } }
fn any_opt_bs() -> Option<ByteSize> { if kani::any() { Some(ByteSize(kani::any())) } else { None } }
fn any_chunker() -> Option<Chunker> { if kani::any() { Some(if kani::any() { Chunker::Rabin } else { Chunker::FixedSize }) } else { None } }

fn stub_level_range() -> std::ops::RangeInclusive<i32> { -131072..=22 }
fn stub_format(_a: std::fmt::Arguments<'_>) -> String { String::new() }

#[kani::proof]
#[kani::unwind(4)]
#[kani::stub(std::backtrace::Backtrace::capture, crate::error::verif_harness::stub_backtrace_capture)]
#[kani::stub(zstd::compression_level_range, stub_level_range)]
#[kani::stub(alloc::fmt::format, stub_format)]
fn config_apply_frame() {
    let mut config = ConfigFile {
        version: kani::any(),
        id: Default::default(),
        chunker: any_chunker(),
        chunker_polynomial: String::new(),
        chunk_size: any_opt_usize(),
        chunk_min_size: any_opt_usize(),
        chunk_max_size: any_opt_usize(),
        is_hot: any_opt_bool(),
        append_only: any_opt_bool(),
        compression: if kani::any() { Some(kani::any()) } else { None },
        treepack_size: any_opt_u32(),
        treepack_growfactor: any_opt_u32(),
        treepack_size_limit: any_opt_u32(),
        datapack_size: any_opt_u32(),
        datapack_growfactor: any_opt_u32(),
        datapack_size_limit: any_opt_u32(),
        min_packsize_tolerate_percent: any_opt_u32(),
        max_packsize_tolerate_percent: any_opt_u32(),
        extra_verify: any_opt_bool(),
    };
    kani::assume(config.version == 1 || config.version == 2);
    let old = config.clone();
    let opts = ConfigOptions {
        set_version: any_opt_u32(),
        set_chunker: any_chunker(),
        set_chunk_size: any_opt_bs(),
        set_chunk_min_size: any_opt_bs(),
        set_chunk_max_size: any_opt_bs(),
        set_compression: if kani::any() { Some(kani::any()) } else { None },
        set_append_only: any_opt_bool(),
        set_treepack_size: any_opt_bs(),
        set_treepack_size_limit: any_opt_bs(),
        set_treepack_growfactor: any_opt_u32(),
        set_datapack_size: any_opt_bs(),
        set_datapack_growfactor: any_opt_u32(),
        set_datapack_size_limit: any_opt_bs(),
        set_min_packsize_tolerate_percent: any_opt_u32(),
        set_max_packsize_tolerate_percent: any_opt_u32(),
        set_extra_verify: any_opt_bool(),
    };
    let r = opts.apply(&mut config);
    if r.is_ok() {
        if opts.set_extra_verify.is_none() { assert!(config.extra_verify == old.extra_verify); }
        if opts.set_compression.is_none() { assert!(config.compression == old.compression); }
        if opts.set_version.is_none() { assert!(config.version == old.version); }
        assert!(config.version >= old.version);
        if opts.set_datapack_size.is_none() { assert!(config.datapack_size == old.datapack_size); }
        if opts.set_append_only.is_none() { assert!(config.append_only == old.append_only); }
    }
    std::mem::forget(r);
}
