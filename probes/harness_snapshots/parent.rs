use super::*;
use crate::backend::node::{Metadata, NodeType};
use jiff::Timestamp;

fn any_ts() -> Option<Timestamp> {
    if kani::any() { let s: i64 = kani::any(); kani::assume(s >= 0 && s < 4); Some(Timestamp::from_second(s).unwrap()) } else { None }
}
fn any_type() -> NodeType { match kani::any::<u8>() % 3 { 0 => NodeType::File, 1 => NodeType::Dir, _ => NodeType::Fifo } }
fn any_meta() -> Metadata {
    Metadata { mtime: any_ts(), ctime: any_ts(), inode: kani::any(), size: kani::any(), ..Default::default() }
}
fn node(name: &str, t: NodeType, m: Metadata) -> Node {
    Node { name: name.to_string(), node_type: t, meta: m, content: None, subtree: None }
}

#[kani::proof]
#[kani::unwind(6)]
fn is_parent_matched_implies_unchanged_stat() {
    let ignore_ctime: bool = kani::any();
    let ignore_inode: bool = kani::any();
    let pn = node("a", any_type(), any_meta());
    let p_copy = pn.clone();
    let cur = node("a", any_type(), any_meta());
    let mut parent = Parent {
        tree_ids: Vec::new(),
        trees: vec![(Tree { nodes: vec![pn] }, 0)],
        stack: Vec::new(),
        ignore_ctime,
        ignore_inode,
    };
    let name = cur.name();
    let r = parent.is_parent(&cur, &name);
    if let ParentResult::Matched(_) = r {
        assert!(p_copy.node_type == cur.node_type);
        assert!(p_copy.meta.size == cur.meta.size);
        assert!(p_copy.meta.mtime == cur.meta.mtime);
        if !ignore_ctime {
            assert!(p_copy.meta.ctime.is_none() || cur.meta.ctime.is_none() || p_copy.meta.ctime == cur.meta.ctime);
        }
    }
    std::mem::forget(parent);
}
