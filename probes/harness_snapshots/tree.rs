use super::*;
use crate::backend::node::{Metadata, Node, NodeType};

// backend/index types that are never called (leaf node => no tree load)
#[derive(Clone, Debug)]
struct NoBe;
impl crate::backend::ReadBackend for NoBe {
    fn location(&self) -> String { String::new() }
    fn list_with_size(&self, _t: crate::backend::FileType) -> RusticResult<Vec<(crate::id::Id, u32)>> { Ok(Vec::new()) }
    fn read_full(&self, _t: crate::backend::FileType, _i: &crate::id::Id) -> RusticResult<bytes::Bytes> { Ok(bytes::Bytes::new()) }
    fn read_partial(&self, _t: crate::backend::FileType, _i: &crate::id::Id, _c: bool, _o: u32, _l: u32) -> RusticResult<bytes::Bytes> { Ok(bytes::Bytes::new()) }
    fn warmup_path(&self, _t: crate::backend::FileType, _i: &crate::id::Id) -> String { String::new() }
}
impl DecryptReadBackend for NoBe {
    fn decrypt(&self, _d: &[u8]) -> RusticResult<Vec<u8>> { Ok(Vec::new()) }
    fn read_encrypted_full(&self, _t: crate::backend::FileType, _i: &crate::id::Id) -> RusticResult<bytes::Bytes> { Ok(bytes::Bytes::new()) }
}
#[derive(Clone, Debug)]
struct NoIdx;
impl crate::index::ReadIndex for NoIdx {
    fn get_id(&self, _t: BlobType, _i: &crate::blob::BlobId) -> Option<crate::index::IndexEntry> { None }
    fn total_size(&self, _t: BlobType) -> u64 { 0 }
    fn has(&self, _t: BlobType, _i: &crate::blob::BlobId) -> bool { false }
}
impl ReadGlobalIndex for NoIdx {}

#[kani::proof]
#[kani::unwind(12)]
fn restore_path_contained() {
    // 2-byte names over a hostile alphabet
    let alphabet = [b'.', b'/', b'a'];
    let i0: usize = kani::any(); let i1: usize = kani::any();
    kani::assume(i0 < 3 && i1 < 3);
    let bytes = [alphabet[i0], alphabet[i1]];
    let name = String::from_utf8(bytes.to_vec()).unwrap();
    let node = Node { name, node_type: NodeType::File, meta: Metadata::default(), content: None, subtree: None };
    let idx = NoIdx;
    let mut st = NodeStreamer::new_streamer(NoBe, &idx, &node, None, true).unwrap();
    match st.next() {
        Some(Ok((path, _n))) => {
            let d = crate::backend::local_destination::verif_harness::dest("/r");
            let full = d.path(&path);
            assert!(full.starts_with("/r"));
            assert!(!full.components().any(|c| matches!(c, Component::ParentDir)));
            std::mem::forget(full);
        }
        Some(Err(e)) => { std::mem::forget(e); }
        None => {}
    }
    std::mem::forget(st);
    std::mem::forget(node);
}
