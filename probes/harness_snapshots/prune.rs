use super::*;
use crate::id::Id;
use crate::blob::BlobLocation;
use jiff::tz::TimeZone;

fn mkid(b: u8) -> Id { let mut r = [0u8; 32]; r[0] = b; Id::new(r) }

const NOW: i64 = 1_000_000;
fn stub_now() -> Zoned { Timestamp::from_second(NOW).unwrap().to_zoned(TimeZone::UTC) }

// time alternatives are concrete; the choice is symbolic
fn any_time() -> Option<Timestamp> {
    match kani::any::<u8>() % 4 {
        0 => None,
        1 => Some(Timestamp::from_second(NOW - 7200).unwrap()), // 2h old
        2 => Some(Timestamp::from_second(NOW - 3600).unwrap()), // exactly 1h old
        _ => Some(Timestamp::from_second(NOW - 10).unwrap()),   // fresh
    }
}
fn any_span() -> Span { if kani::any() { Span::new() } else { Span::new().hours(1) } }

fn any_blob(tpe: BlobType) -> IndexBlob {
    let b: u8 = kani::any();
    kani::assume(b < 3);
    let length: u32 = kani::any();
    kani::assume(length >= 32 && length < 1000);
    IndexBlob { id: BlobId::from(mkid(b)), tpe, location: BlobLocation { offset: 0, length, uncompressed_length: None } }
}
fn any_pack(n: u8) -> IndexPack {
    let tpe = if kani::any() { BlobType::Tree } else { BlobType::Data };
    let mut blobs = vec![any_blob(tpe), any_blob(tpe)];
    if kani::any() { _ = blobs.pop(); }
    IndexPack { id: PackId::from(mkid(n)), blobs, time: any_time(), size: None }
}

#[kani::proof]
#[kani::unwind(34)]
#[kani::stub(jiff::Zoned::now, stub_now)]
#[kani::stub(std::backtrace::Backtrace::capture, crate::error::verif_harness::stub_backtrace_capture)]
fn prune_plan_keeps_used() {
    let p0 = any_pack(10);
    let p1 = any_pack(11);
    let mut used: BTreeMap<BlobId, u8> = BTreeMap::new();
    let mut used_flags = [false; 3];
    for i in 0..3u8 {
        if kani::any() { used_flags[i as usize] = true; _ = used.insert(BlobId::from(mkid(i)), 0); }
    }
    let mut existing: BTreeMap<PackId, u32> = BTreeMap::new();
    _ = existing.insert(p0.id, p0.pack_size());
    _ = existing.insert(p1.id, p1.pack_size());
    let mut index = IndexFile::default();
    let p1_marked: bool = kani::any();
    index.packs.push(p0);
    if p1_marked { index.packs_to_delete.push(p1); } else { index.packs.push(p1); }
    let mut plan = PrunePlan::new(used, existing, vec![(IndexId::default(), index)]);
    plan.count_used_blobs();
    if plan.check().is_err() { std::mem::forget(plan); return; }
    let sizer: BlobTypeMap<PackSizer> = enum_map::EnumMap::from_fn(|_| PackSizer::fixed(kani::any()));
    plan.decide_packs(any_span(), any_span(), kani::any(), kani::any(), kani::any(), &sizer).unwrap();
    plan.decide_repack(&LimitOption::Unlimited, &LimitOption::Unlimited, kani::any(), kani::any(), &sizer);
    if plan.check_existing_packs().is_err() { std::mem::forget(plan); return; }
    for i in 0..3u8 {
        if used_flags[i as usize] {
            let bid = BlobId::from(mkid(i));
            let mut safe = false;
            for pack in plan.index_files.iter().flat_map(|ix| &ix.packs) {
                let has = pack.blobs.iter().any(|b| b.id == bid);
                if has && (pack.to_do == PackToDo::Keep || pack.to_do == PackToDo::Recover) { safe = true; }
                if has && pack.to_do == PackToDo::Repack && plan.used_ids.contains_key(&bid) { safe = true; }
            }
            assert!(safe);
        }
    }
    std::mem::forget(plan);
}

#[kani::proof]
#[kani::unwind(34)]
fn from_pack_step() {
    // arbitrary valid pre-state: two tracked ids with remaining listing counts
    let c0: u8 = kani::any();
    let c1: u8 = kani::any();
    kani::assume(c0 <= 3 && c1 <= 3);
    let mut used: BTreeMap<BlobId, u8> = BTreeMap::new();
    _ = used.insert(BlobId::from(mkid(0)), c0);
    _ = used.insert(BlobId::from(mkid(1)), c1);
    let tpe = BlobType::Data;
    let pack = PrunePack {
        id: PackId::from(mkid(10)),
        blob_type: tpe,
        size: 0,
        delete_mark: kani::any(),
        to_do: PackToDo::Undecided,
        time: None,
        blobs: vec![any_blob(tpe), any_blob(tpe)],
    };
    let pi = PackInfo::from_pack(&pack, &mut used);
    // accounting: every blob is counted exactly once
    assert!(pi.used_blobs + pi.unused_blobs == 2);
    assert!(u64::from(pi.used_size) + u64::from(pi.unused_size) == u64::from(pack.blobs[0].location.length) + u64::from(pack.blobs[1].location.length));
    // an id whose last remaining listing is in this pack must be counted used here
    let n0 = pack.blobs.iter().filter(|b| b.id == BlobId::from(mkid(0))).count() as u8;
    if c0 > 0 && n0 >= c0 { assert!(pi.used_blobs >= 1); assert!(used[&BlobId::from(mkid(0))] == 0); }
    std::mem::forget(pack);
    std::mem::forget(used);
}

fn blob_c(b: u8, tpe: BlobType) -> IndexBlob {
    let length: u32 = kani::any();
    kani::assume(length >= 32 && length < 1000);
    IndexBlob { id: BlobId::from(mkid(b)), tpe, location: BlobLocation { offset: 0, length, uncompressed_length: None } }
}

#[kani::proof]
#[kani::unwind(34)]
fn from_pack_step_concrete_ids() {
    let c0: u8 = kani::any();
    let c1: u8 = kani::any();
    kani::assume(c0 <= 3 && c1 <= 3);
    let mut used: BTreeMap<BlobId, u8> = BTreeMap::new();
    _ = used.insert(BlobId::from(mkid(0)), c0);
    if kani::any() { _ = used.insert(BlobId::from(mkid(1)), c1); }
    let tpe = BlobType::Data;
    let pack = PrunePack {
        id: PackId::from(mkid(10)),
        blob_type: tpe,
        size: 0,
        delete_mark: kani::any(),
        to_do: PackToDo::Undecided,
        time: None,
        blobs: vec![blob_c(0, tpe), blob_c(1, tpe), blob_c(0, tpe)],
    };
    let pi = PackInfo::from_pack(&pack, &mut used);
    assert!(pi.used_blobs + pi.unused_blobs == 3);
    if c0 > 0 && c0 <= 2 { assert!(pi.used_blobs >= 1); assert!(used[&BlobId::from(mkid(0))] == 0); }
    std::mem::forget(pack);
    std::mem::forget(used);
}

fn pack_c(n: u8, ids: &[u8], tpe: BlobType) -> IndexPack {
    let mut blobs = Vec::with_capacity(2);
    for b in ids { blobs.push(blob_c(*b, tpe)); }
    IndexPack { id: PackId::from(mkid(n)), blobs, time: any_time(), size: None }
}

// shape: id 0 is used and listed in a live pack (10) and in a marked pack (11)
#[kani::proof]
#[kani::unwind(34)]
#[kani::stub(jiff::Zoned::now, stub_now)]
#[kani::stub(std::backtrace::Backtrace::capture, crate::error::verif_harness::stub_backtrace_capture)]
fn plan_one_used_id() {
    let tpe = BlobType::Data;
    let p0 = pack_c(10, &[0], tpe);
    let p1 = pack_c(11, &[0], tpe);
    let mut used: BTreeMap<BlobId, u8> = BTreeMap::new();
    _ = used.insert(BlobId::from(mkid(0)), 0);
    let mut existing: BTreeMap<PackId, u32> = BTreeMap::new();
    _ = existing.insert(p0.id, p0.pack_size());
    _ = existing.insert(p1.id, p1.pack_size());
    let mut index = IndexFile::default();
    index.packs.push(p0);
    index.packs_to_delete.push(p1);
    let mut plan = PrunePlan::new(used, existing, vec![(IndexId::default(), index)]);
    plan.count_used_blobs();
    if plan.check().is_err() { std::mem::forget(plan); return; }
    let sizer: BlobTypeMap<PackSizer> = enum_map::EnumMap::from_fn(|_| PackSizer::fixed(kani::any()));
    plan.decide_packs(any_span(), any_span(), kani::any(), kani::any(), kani::any(), &sizer).unwrap();
    plan.decide_repack(&LimitOption::Unlimited, &LimitOption::Unlimited, kani::any(), kani::any(), &sizer);
    if plan.check_existing_packs().is_err() { std::mem::forget(plan); return; }
    let bid = BlobId::from(mkid(0));
    let mut safe = false;
    for pack in plan.index_files.iter().flat_map(|ix| &ix.packs) {
        let has = pack.blobs.iter().any(|b| b.id == bid);
        if has && (pack.to_do == PackToDo::Keep || pack.to_do == PackToDo::Recover) { safe = true; }
        if has && pack.to_do == PackToDo::Repack && plan.used_ids.contains_key(&bid) { safe = true; }
    }
    assert!(safe);
    std::mem::forget(plan);
}

fn stub_now0() -> Zoned { Zoned::default() }
fn stub_sat_sub<A: Into<jiff::ZonedArithmetic>>(_z: &Zoned, _d: A) -> Zoned { Zoned::default() }

fn time_alt() -> Option<Timestamp> {
    match kani::any::<u8>() % 4 {
        0 => None,
        1 => Some(Timestamp::from_second(-1).unwrap()),
        2 => Some(Timestamp::from_second(0).unwrap()),
        _ => Some(Timestamp::from_second(1).unwrap()),
    }
}

// no used blobs at all: maps stay empty; exercises MarkDelete / Keep(too young) / Delete / KeepMarked timing
#[kani::proof]
#[kani::unwind(34)]
#[kani::stub(jiff::Zoned::now, stub_now0)]
#[kani::stub(jiff::Zoned::saturating_sub, stub_sat_sub)]
#[kani::stub(std::backtrace::Backtrace::capture, crate::error::verif_harness::stub_backtrace_capture)]
fn plan_unused_timing() {
    let tpe = BlobType::Data;
    let t0 = time_alt();
    let t1 = time_alt();
    let mut p0 = pack_c(10, &[0], tpe); p0.time = t0;
    let mut p1 = pack_c(11, &[1], tpe); p1.time = t1;
    let used: BTreeMap<BlobId, u8> = BTreeMap::new();
    let existing: BTreeMap<PackId, u32> = BTreeMap::new();
    let mut index = IndexFile::default();
    index.packs.push(p0);
    index.packs_to_delete.push(p1);
    let mut plan = PrunePlan::new(used, existing, vec![(IndexId::default(), index)]);
    plan.count_used_blobs();
    let sizer: BlobTypeMap<PackSizer> = enum_map::EnumMap::from_fn(|_| PackSizer::fixed(kani::any()));
    plan.decide_packs(Span::new(), Span::new(), kani::any(), kani::any(), kani::any(), &sizer).unwrap();
    let packs = &plan.index_files[0].packs;
    assert!(packs.len() == 2);
    // live unused pack: marked for deletion unless younger than the cutoff (time > cutoff)
    let too_young0 = matches!(t0, Some(t) if t > Timestamp::from_second(0).unwrap());
    assert!(packs[0].to_do == if too_young0 { PackToDo::Keep } else { PackToDo::MarkDelete });
    // marked unused pack: deleted only if mark time <= cutoff; no time => kept and corrected
    let expect1 = match t1 { None => PackToDo::KeepMarkedAndCorrect, Some(t) if t <= Timestamp::from_second(0).unwrap() => PackToDo::Delete, Some(_) => PackToDo::KeepMarked };
    assert!(packs[1].to_do == expect1);
    std::mem::forget(plan);
}
