use super::*;
use crate::blob::BlobLocation;

fn any_id() -> BlobId {
    let b: u8 = kani::any();
    kani::assume(b < 4);
    let mut raw = [0u8; 32];
    raw[0] = b;
    BlobId::from(crate::id::Id::new(raw))
}
fn any_pack_id() -> PackId {
    let b: u8 = kani::any();
    let mut raw = [0u8; 32];
    raw[0] = b;
    PackId::from(crate::id::Id::new(raw))
}
fn any_blob(tpe: BlobType) -> IndexBlob {
    IndexBlob {
        id: any_id(),
        tpe,
        location: BlobLocation {
            offset: kani::any(),
            length: kani::any(),
            uncompressed_length: None,
        },
    }
}
fn any_pack() -> IndexPack {
    let tpe = if kani::any() { BlobType::Tree } else { BlobType::Data };
    let n: usize = kani::any();
    kani::assume(n <= 2);
    let mut blobs = Vec::new();
    for _ in 0..n {
        blobs.push(any_blob(tpe));
    }
    IndexPack { id: any_pack_id(), blobs, time: None, size: Some(kani::any()) }
}

#[kani::proof]
#[kani::unwind(6)]
fn index_lookup_matches_files() {
    let p1 = any_pack();
    let p2 = any_pack();
    let packs = [p1.clone(), p2.clone()];
    let mut c = IndexCollector::new(IndexType::Full);
    c.extend(vec![p1, p2]);
    let idx = c.into_index();
    let q = any_id();
    let tpe = if kani::any() { BlobType::Tree } else { BlobType::Data };
    // oracle
    let mut listed = false;
    for p in &packs {
        for b in &p.blobs {
            if b.tpe == tpe && b.id == q { listed = true; }
        }
    }
    assert!(idx.has(tpe, &q) == listed);
    match idx.get_id(tpe, &q) {
        None => assert!(!listed),
        Some(e) => {
            let mut ok = false;
            for p in &packs {
                for b in &p.blobs {
                    if b.tpe == tpe && b.id == q && p.id == e.pack && b.location == e.location { ok = true; }
                }
            }
            assert!(ok);
        }
    }
}

#[kani::proof]
fn id_ord_probe() {
    let a = any_id();
    let b = any_id();
    if a < b { assert!(a != b); }
}

#[kani::proof]
#[kani::unwind(6)]
fn id_binsearch_probe() {
    let v = vec![any_id(), any_id()];
    let q = any_id();
    let r = v.binary_search(&q);
    if v[0] <= v[1] { if let Ok(i) = r { assert!(v[i] == q); } }
}

#[kani::proof]
#[kani::unwind(34)]
fn ice_probe_parsort() {
    let mut v = vec![any_id(), any_id()];
    v.par_sort_unstable();
    assert!(v[0] <= v[1]);
}

#[kani::proof]
#[kani::unwind(34)]
fn ice_probe_extend_only() {
    let p1 = any_pack();
    let mut c = IndexCollector::new(IndexType::Full);
    c.extend(vec![p1]);
    assert!(c.0[BlobType::Tree].packs.len() + c.0[BlobType::Data].packs.len() == 1);
    std::mem::forget(c);
}

fn seq_sort_unstable<T: Ord + Send>(s: &mut [T]) { s.sort_unstable(); }

#[kani::proof]
#[kani::unwind(34)]
#[kani::stub(rayon::slice::ParallelSliceMut::par_sort_unstable, seq_sort_unstable)]
fn ice_probe_parsort_stubbed() {
    let mut v = vec![any_id(), any_id()];
    v.par_sort_unstable();
    assert!(v[0] <= v[1]);
}

fn blob_sym(tpe: BlobType) -> IndexBlob { any_blob(tpe) }
fn pack_shape(n: u8, tpe: BlobType, nblobs: usize) -> IndexPack {
    let mut blobs = Vec::with_capacity(2);
    let mut i = 0;
    while i < nblobs { blobs.push(blob_sym(tpe)); i += 1; }
    let mut raw = [0u8; 32]; raw[0] = n;
    IndexPack { id: PackId::from(crate::id::Id::new(raw)), blobs, time: None, size: Some(kani::any()) }
}

fn mirror_into_index(c: IndexCollector) -> Index {
    Index(c.0.map(|_, mut tc| {
        match &mut tc.entries {
            EntriesVariants::None => {}
            EntriesVariants::Ids(ids) => ids.sort_unstable(),
            EntriesVariants::FullEntries(entries) => entries.sort_unstable_by_key(|e| e.id),
        }
        let packs = tc.packs.into_iter().map(|(id, _)| id).collect();
        TypeIndex { packs, entries: tc.entries, total_size: tc.total_size }
    }))
}

#[kani::proof]
#[kani::unwind(34)]
fn index_shape_d2_t1_mirror() {
    let p1 = pack_shape(1, BlobType::Data, 2);
    let p2 = pack_shape(2, BlobType::Tree, 1);
    let b = [p1.blobs[0], p1.blobs[1], p2.blobs[0]];
    let pid = [p1.id, p1.id, p2.id];
    let mut c = IndexCollector::new(IndexType::Full);
    c.extend([p1, p2]);
    let idx = mirror_into_index(c);
    let q = any_id();
    let tpe = if kani::any() { BlobType::Tree } else { BlobType::Data };
    let mut listed = false;
    let mut i = 0;
    while i < 3 { if b[i].tpe == tpe && b[i].id == q { listed = true; } i += 1; }
    assert!(idx.has(tpe, &q) == listed);
    match idx.get_id(tpe, &q) {
        None => assert!(!listed),
        Some(e) => {
            let mut ok = false;
            let mut i = 0;
            while i < 3 { if b[i].tpe == tpe && b[i].id == q && pid[i] == e.pack && b[i].location == e.location { ok = true; } i += 1; }
            assert!(ok);
        }
    }
    std::mem::forget(idx);
}

fn entry(id: BlobId, pack_idx: u32) -> SortedEntry {
    SortedEntry { id, pack_idx, location: BlobLocation { offset: kani::any(), length: kani::any(), uncompressed_length: None } }
}

#[kani::proof]
#[kani::unwind(34)]
fn index_lookup_on_sorted() {
    let e0 = entry(any_id(), 0);
    let e1 = entry(any_id(), 1);
    kani::assume(e0.id <= e1.id); // what the sort establishes
    let exp = [(e0.id, e0.pack_idx, e0.location), (e1.id, e1.pack_idx, e1.location)];
    let data = TypeIndex { packs: vec![any_pack_id(), any_pack_id()], entries: EntriesVariants::FullEntries(vec![e0, e1]), total_size: kani::any() };
    let tree = TypeIndex { packs: Vec::new(), entries: EntriesVariants::FullEntries(Vec::new()), total_size: 0 };
    let packs = [data.packs[0], data.packs[1]];
    let idx = Index(enum_map::enum_map! { BlobType::Tree => TypeIndex { packs: Vec::new(), entries: EntriesVariants::FullEntries(Vec::new()), total_size: 0 }, BlobType::Data => TypeIndex { packs: vec![packs[0], packs[1]], entries: EntriesVariants::FullEntries(vec![entry(exp[0].0, 0), entry(exp[1].0, 1)]), total_size: 0 } });
    let q = any_id();
    let listed = q == exp[0].0 || q == exp[1].0;
    assert!(idx.has(BlobType::Data, &q) == listed);
    assert!(!idx.has(BlobType::Tree, &q));
    match idx.get_id(BlobType::Data, &q) {
        None => assert!(!listed),
        Some(e) => { assert!(listed); assert!((q == exp[0].0 && e.pack == packs[0]) || (q == exp[1].0 && e.pack == packs[1])); }
    }
    std::mem::forget(idx); std::mem::forget(data); std::mem::forget(tree);
}
