// stub helpers: error construction without backtrace capture / formatting
use super::*;
pub(crate) fn stub_backtrace_capture() -> std::backtrace::Backtrace {
    std::backtrace::Backtrace::disabled()
}

pub(crate) fn stub_catch_unwind<F: FnOnce() -> R + std::panic::UnwindSafe, R>(f: F) -> std::thread::Result<R> {
    Ok(f())
}
