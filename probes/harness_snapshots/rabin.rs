use super::*;
use std::io::{self, Read};

const N: usize = 76;

/// reader over a symbolic buffer that returns arbitrary short reads
struct FragReader {
    data: [u8; N],
    len: usize,
    pos: usize,
}
impl Read for FragReader {
    fn read(&mut self, buf: &mut [u8]) -> io::Result<usize> {
        let avail = self.len - self.pos;
        if avail == 0 || buf.is_empty() {
            return Ok(0);
        }
        let max = avail.min(buf.len());
        let n: usize = kani::any();
        kani::assume(n >= 1 && n <= max);
        buf[..n].copy_from_slice(&self.data[self.pos..self.pos + n]);
        self.pos += n;
        Ok(n)
    }
}

#[kani::proof]
#[kani::unwind(80)]
fn rabin_first_chunk() {
    let poly: u64 = 0x003D_A335_8B4D_C173;
    let rabin = Rabin64::new_with_polynom(6, &poly);
    let data: [u8; N] = kani::any();
    let len: usize = kani::any();
    kani::assume(len <= N);
    let reader = FragReader { data, len, pos: 0 };
    let mut it = ChunkIter::new(rabin, 64, 64, 72, reader, 0).unwrap();
    match it.next() {
        None => assert!(len == 0),
        Some(Ok(v)) => {
            assert!(v.len() <= 72);
            assert!(v.len() >= 64 || v.len() == len);
            let mut i = 0;
            while i < v.len() {
                assert!(v[i] == data[i]);
                i += 1;
            }
        }
        Some(Err(_)) => assert!(false),
    }
}
