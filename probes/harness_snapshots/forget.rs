use super::*;
use crate::repofile::DeleteOption;
use crate::blob::tree::TreeId;
use jiff::{civil::DateTime, tz::TimeZone};

#[derive(Clone, Copy)]
struct Civ { y: i16, mo: i8, d: i8, h: i8, mi: i8, s: i8 }
fn any_civ() -> Civ {
    let c = Civ { y: kani::any(), mo: kani::any(), d: kani::any(), h: kani::any(), mi: kani::any(), s: kani::any() };
    kani::assume(c.y >= 2015 && c.y <= 2017);
    kani::assume(c.mo >= 1 && c.mo <= 12);
    kani::assume(c.d >= 1 && c.d <= 28);
    kani::assume(c.h >= 0 && c.h <= 23);
    kani::assume(c.mi >= 0 && c.mi <= 59);
    kani::assume(c.s >= 0 && c.s <= 59);
    c
}
fn zoned(c: Civ) -> Zoned {
    DateTime::new(c.y, c.mo, c.d, c.h, c.mi, c.s, 0).unwrap().to_zoned(TimeZone::UTC).unwrap()
}
fn snap(time: Zoned) -> SnapshotFile {
    SnapshotFile {
        time,
        program_version: String::new(),
        parent: None,
        parents: Vec::new(),
        tree: TreeId::default(),
        label: String::new(),
        paths: StringList::default(),
        hostname: String::new(),
        username: String::new(),
        uid: 0,
        gid: 0,
        tags: StringList::default(),
        original: None,
        delete: DeleteOption::NotSet,
        summary: None,
        description: None,
        id: SnapshotId::default(),
    }
}

#[kani::proof]
#[kani::unwind(8)]
fn equal_minute_spec() {
    let a = any_civ();
    let b = any_civ();
    let sa = snap(zoned(a));
    let sb = snap(zoned(b));
    let spec = a.y == b.y && a.mo == b.mo && a.d == b.d && a.h == b.h && a.mi == b.mi;
    assert!(equal_minute(&sa, &sb) == spec);
    std::mem::forget(sa);
    std::mem::forget(sb);
}

#[kani::proof]
#[kani::unwind(8)]
fn equal_day_spec() {
    let a = any_civ();
    let b = any_civ();
    let sa = snap(zoned(a));
    let sb = snap(zoned(b));
    let spec = a.y == b.y && a.mo == b.mo && a.d == b.d;
    assert!(equal_day(&sa, &sb) == spec);
    std::mem::forget(sa);
    std::mem::forget(sb);
}

fn stub_to_hex(_id: crate::id::Id) -> crate::id::HexId { unreachable!() }

#[kani::proof]
#[kani::unwind(8)]
fn apply_keep_daily_3() {
    let a = any_civ();
    let b = any_civ();
    let c = any_civ();
    let now = zoned(any_civ());
    let n: i32 = kani::any();
    kani::assume(n >= -1 && n <= 3);
    let mut opts = KeepOptions::default();
    opts.keep_daily = Some(n);
    let res = opts.apply(vec![snap(zoned(a)), snap(zoned(b)), snap(zoned(c))], &now).unwrap();
    assert!(res.len() == 3);
    // newest snapshot is always kept when n != 0
    if n != 0 { assert!(res[0].keep); } else { assert!(!res[0].keep && !res[1].keep && !res[2].keep); }
    std::mem::forget(res);
}

fn zoned_c(y: i16, mo: i8, d: i8, h: i8, mi: i8) -> Zoned {
    DateTime::new(y, mo, d, h, mi, 0, 0).unwrap().to_zoned(TimeZone::UTC).unwrap()
}

#[kani::proof]
#[kani::unwind(70)]
#[kani::stub(std::backtrace::Backtrace::capture, crate::error::verif_harness::stub_backtrace_capture)]
fn apply_concrete_times_sym_counters() {
    let snaps = vec![
        snap(zoned_c(2016, 1, 4, 12, 23)),
        snap(zoned_c(2016, 1, 4, 11, 23)),
        snap(zoned_c(2016, 1, 3, 11, 23)),
    ];
    let now = zoned_c(2020, 1, 1, 0, 0);
    let n: i32 = kani::any();
    kani::assume(n >= -1 && n <= 3);
    let mut opts = KeepOptions::default();
    if kani::any() { opts.keep_daily = Some(n); } else { opts.keep_hourly = Some(n); }
    let res = opts.apply(snaps, &now).unwrap();
    assert!(res.len() == 3);
    if n != 0 { assert!(res[0].keep); }
    std::mem::forget(res);
}

#[kani::proof]
#[kani::unwind(10)]
fn jiff_probe_ts_to_zoned() {
    let z = jiff::Timestamp::from_second(1_000_000).unwrap().to_zoned(TimeZone::UTC);
    assert!(z.year() == 1970);
    std::mem::forget(z);
}

#[kani::proof]
#[kani::unwind(10)]
fn jiff_probe_default() {
    let z = Zoned::default();
    assert!(z.year() == 1970);
    let z2 = z.clone();
    assert!(z2 == z);
    std::mem::forget(z);
    std::mem::forget(z2);
}

use std::sync::atomic::{AtomicI16, AtomicI8, Ordering::Relaxed};
static T_Y: [AtomicI16; 2] = [AtomicI16::new(0), AtomicI16::new(0)];
static T_MO: [AtomicI8; 2] = [AtomicI8::new(0), AtomicI8::new(0)];
static T_DOY: [AtomicI16; 2] = [AtomicI16::new(0), AtomicI16::new(0)];
static T_H: [AtomicI8; 2] = [AtomicI8::new(0), AtomicI8::new(0)];
static T_MI: [AtomicI8; 2] = [AtomicI8::new(0), AtomicI8::new(0)];
const M0: i64 = 1_000_000;
fn midx(z: &Zoned) -> usize { if z.timestamp().as_second() == M0 { 0 } else { 1 } }
fn st_year(z: &Zoned) -> i16 { T_Y[midx(z)].load(Relaxed) }
fn st_month(z: &Zoned) -> i8 { T_MO[midx(z)].load(Relaxed) }
fn st_doy(z: &Zoned) -> i16 { T_DOY[midx(z)].load(Relaxed) }
fn st_hour(z: &Zoned) -> i8 { T_H[midx(z)].load(Relaxed) }
fn st_minute(z: &Zoned) -> i8 { T_MI[midx(z)].load(Relaxed) }

const CUM: [i16; 12] = [0, 31, 59, 90, 120, 151, 181, 212, 243, 273, 304, 334];
fn set_civ(i: usize) -> (i16, i8, i8, i8, i8) {
    let y: i16 = kani::any(); kani::assume(y >= 2015 && y <= 2017);
    let mo: i8 = kani::any(); kani::assume(mo >= 1 && mo <= 12);
    let d: i8 = kani::any(); kani::assume(d >= 1 && d <= 28);
    let h: i8 = kani::any(); kani::assume(h >= 0 && h <= 23);
    let mi: i8 = kani::any(); kani::assume(mi >= 0 && mi <= 59);
    let leap = y == 2016 && mo > 2;
    let doy = CUM[(mo - 1) as usize] + d as i16 + if leap { 1 } else { 0 };
    T_Y[i].store(y, Relaxed); T_MO[i].store(mo, Relaxed); T_DOY[i].store(doy, Relaxed);
    T_H[i].store(h, Relaxed); T_MI[i].store(mi, Relaxed);
    (y, mo, d, h, mi)
}

#[kani::proof]
#[kani::unwind(10)]
#[kani::stub(jiff::Zoned::year, st_year)]
#[kani::stub(jiff::Zoned::month, st_month)]
#[kani::stub(jiff::Zoned::day_of_year, st_doy)]
#[kani::stub(jiff::Zoned::hour, st_hour)]
#[kani::stub(jiff::Zoned::minute, st_minute)]
fn equal_minute_stubbed_calendar() {
    let a = set_civ(0);
    let b = set_civ(1);
    let za = jiff::Timestamp::from_second(M0).unwrap().to_zoned(TimeZone::UTC);
    let zb = jiff::Timestamp::from_second(M0 - 60).unwrap().to_zoned(TimeZone::UTC);
    let sa = snap(za);
    let sb = snap(zb);
    let spec = a == b;
    assert!(equal_minute(&sa, &sb) == spec);
    std::mem::forget(sa);
    std::mem::forget(sb);
}
