use super::*;
pub(crate) fn dest(base: &str) -> LocalDestination { LocalDestination { path: PathBuf::from(base), is_file: false } }
