#!/bin/bash
# usage: run.sh <harness> <timeout_s> [extra kani args]
h=$1; t=$2; shift 2
cd /tmp/kp/repo
mkdir -p /tmp/kp/logs
( ulimit -v 24000000; /usr/bin/time -v timeout $t env CARGO_NET_OFFLINE=true cargo kani -p rustic_core --target-dir ${TD:-/tmp/kp/target} --harness $h "$@" ) > /tmp/kp/logs/$h.log 2>&1
echo "exit=$?" >> /tmp/kp/logs/$h.log
