#!/bin/bash
# usage: killprop.sh C18   -- stops a running check of that property (driver + its cbmc children)
p="$1"
for pid in $(pgrep -f "driver.py $p"); do kill "$pid" 2>/dev/null; done
for pid in $(pgrep -f "/.work/$p/run/"); do kill -9 "$pid" 2>/dev/null; done
exit 0
