// Native reproduction (no Kani, no stubs) of the rabin small-minimum-size defect found by
// c06_rabin_small_params_a / _b (solver counterexamples: "attempt to subtract with overflow" in
// <ChunkIter as Iterator>::next at `min_size -= open_buf_len` and at `vec[vec.len() - 64..]`).
// Kani's own concrete-playback extraction ran out of memory on these harnesses (trace of the 256-entry table
// construction), so the counterexample was replayed by hand: append these tests to `mod tests` of
// crates/core/src/chunker/rabin.rs at the commit before the fix and run
//   cargo test -p rustic_core --lib chunker::rabin::tests::verif            (debug)
//   cargo test -p rustic_core --lib --release chunker::rabin::tests::verif  (release)
// Result on the unfixed tree: both tests fail in both profiles
//   debug:   panics at rabin.rs:151 (slice start underflow) and rabin.rs:124 (attempt to subtract with overflow)
//   release: panics at rabin.rs:151; second test: a chunk longer than max size (the subtraction wraps and the
//            whole rest of the stream is read into one chunk)
#[test]
fn verif_small_min_size() {
    // accepted parameters: avg 64, min 16 (< 64-byte window), max 72
    let poly = 0x003D_A335_8B4D_C173;
    let rabin = Rabin64::new_with_polynom(6, &poly);
    let data: Vec<u8> = (0..10_000u32).map(|i| (i * 7 + i / 13) as u8).collect();
    let it = ChunkIter::new(rabin, 64, 16, 72, Cursor::new(data.clone()), 0).unwrap();
    let chunks: Vec<Vec<u8>> = it.map(|c| c.unwrap()).collect();
    assert!(chunks.iter().all(|c| !c.is_empty() && c.len() <= 72));
    assert_eq!(chunks.concat(), data);
}
#[test]
fn verif_min_below_lookahead() {
    // accepted parameters: avg 128, min 100 (>= window, < 4 KiB look-ahead fill), max 200
    let poly = 0x003D_A335_8B4D_C173;
    let rabin = Rabin64::new_with_polynom(6, &poly);
    let data: Vec<u8> = (0..20_000u32).map(|i| (i * 31 + i / 7) as u8).collect();
    let it = ChunkIter::new(rabin, 128, 100, 200, Cursor::new(data.clone()), 0).unwrap();
    let chunks: Vec<Vec<u8>> = it.map(|c| c.unwrap()).collect();
    assert!(chunks.iter().all(|c| !c.is_empty() && c.len() <= 200));
    assert_eq!(chunks.concat(), data);
}
