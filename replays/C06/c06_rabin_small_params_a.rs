// replay of a solver counterexample
// property: C06
// harness: chunker::rabin::verif_harness::c06_rabin_small_params_a
// failing checks: <chunker::rabin::ChunkIter<chunker::rabin::verif_harness::FragReader<8, false>> as std::iter::Iterator>::next: attempt to subtract with overflow @ crates/core/src/chunker/rabin.rs:124
// module file: crates/core/src/chunker/rabin.rs
// re-run: /verif/check --replay /verif/replays/C06/c06_rabin_small_params_a.rs
#[cfg(kani)]
mod verif_replay {
#[test]

fn kani_concrete_playback_c06_rabin_small_params_a_18265334032330949224() {
    let concrete_vals: Vec<Vec<u8>> = vec![
        // 0
        vec![0],
        // 0
        vec![0],
        // 0
        vec![0],
        // 0
        vec![0],
        // 0
        vec![0],
        // 0
        vec![0],
        // 0
        vec![0],
        // 0
        vec![0],
        // 0
        vec![0],
        // 0
        vec![0],
        // 0
        vec![0],
        // 0
        vec![0],
        // 0
        vec![0],
        // 0
        vec![0],
        // 0
        vec![0],
        // 0
        vec![0],
        // 0
        vec![0],
        // 0
        vec![0],
        // 0
        vec![0],
        // 0
        vec![0],
        // 0
        vec![0],
        // 0
        vec![0],
        // 0
        vec![0],
        // 0
        vec![0],
        // 0
        vec![0],
        // 0
        vec![0],
        // 0
        vec![0],
        // 0
        vec![0],
    ];
    crate::error::verif_harness::set_replay(); kani::concrete_playback_run(concrete_vals, super::verif_harness::c06_rabin_small_params_a);
}

}
