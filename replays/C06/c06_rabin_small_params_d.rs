// replay of a solver counterexample
// property: C06
// harness: chunker::rabin::verif_harness::c06_rabin_small_params_d
// failing checks: chunker::rabin::verif_harness::small_params_check::<3, 10>: assertion failed: c >= 1 && c <= max && c <= total @ /verif/harness/chunker_rabin.rs:357
// module file: crates/core/src/chunker/rabin.rs
// re-run: /verif/check --replay /verif/replays/C06/c06_rabin_small_params_d.rs
#[cfg(kani)]
mod verif_replay {
#[test]

fn kani_concrete_playback_c06_rabin_small_params_d_4220230039226087786() {
    let concrete_vals: Vec<Vec<u8>> = vec![
        // 0
        vec![0],
        // 0
        vec![0],
        // 0
        vec![0],
        // 0
        vec![0],
        // 0
        vec![0],
        // 0
        vec![0],
        // 0
        vec![0],
        // 0
        vec![0],
        // 0
        vec![0],
        // 0
        vec![0],
        // 0
        vec![0],
        // 0
        vec![0],
        // 0
        vec![0],
    ];
    crate::error::verif_harness::set_replay(); kani::concrete_playback_run(concrete_vals, super::verif_harness::c06_rabin_small_params_d);
}

}
