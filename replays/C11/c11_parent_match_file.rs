// replay of a solver counterexample
// property: C11
// harness: archiver::parent::verif_harness::c11_parent_match_file
// failing checks: archiver::parent::verif_harness::c11_parent_match_file: assertion failed: out_node.content == Some(vec![did(idb)]) @ /verif/harness/archiver_parent.rs:88
// module file: crates/core/src/archiver/parent.rs
// re-run: /verif/check --replay /verif/replays/C11/c11_parent_match_file.rs
#[cfg(kani)]
mod verif_replay {
/// Test generated for harness `archiver::parent::verif_harness::c11_parent_match_file` 
///
/// Check for `cover`: "changed size is detected"
///
/// # Warning
///
/// Concrete playback tests combined with stubs or contracts is highly
/// experimental, and subject to change.
///
/// The original harness has stubs which are not applied to this test.
/// This may cause a mismatch of non-deterministic values if the stub
/// creates any non-deterministic value.
/// The execution path may also differ, which can be used to refine the stub
/// logic.

#[test]

fn kani_concrete_playback_c11_parent_match_file_5342848914035928511() {
    let concrete_vals: Vec<Vec<u8>> = vec![
        // 18446744073709551615ul
        vec![255, 255, 255, 255, 255, 255, 255, 255],
        // 18446744073709551615ul
        vec![255, 255, 255, 255, 255, 255, 255, 255],
        // 98
        vec![98],
        // 98
        vec![98],
        // 3ul
        vec![3, 0, 0, 0, 0, 0, 0, 0],
        // 72340172838076673ul
        vec![1, 1, 1, 1, 1, 1, 1, 1],
        // 98
        vec![98],
        // 96
        vec![96],
        // 255
        vec![255],
        // 0
        vec![0],
        // 1
        vec![1],
        // 2ul
        vec![2, 0, 0, 0, 0, 0, 0, 0],
        // 72340172838076672ul
        vec![0, 1, 1, 1, 1, 1, 1, 1],
        // 98
        vec![98],
        // 98
        vec![98],
        // 2
        vec![2],
    ];
    crate::error::verif_harness::set_replay(); kani::concrete_playback_run(concrete_vals, super::verif_harness::c11_parent_match_file);
}

/// Test generated for harness `archiver::parent::verif_harness::c11_parent_match_file` 
///
/// Check for `cover`: "parent blobs missing: file is read again"
///
/// # Warning
///
/// Concrete playback tests combined with stubs or contracts is highly
/// experimental, and subject to change.
///
/// The original harness has stubs which are not applied to this test.
/// This may cause a mismatch of non-deterministic values if the stub
/// creates any non-deterministic value.
/// The execution path may also differ, which can be used to refine the stub
/// logic.

#[test]

fn kani_concrete_playback_c11_parent_match_file_16828753182306922504() {
    let concrete_vals: Vec<Vec<u8>> = vec![
        // 18446744073709551615ul
        vec![255, 255, 255, 255, 255, 255, 255, 255],
        // 18446744073709551615ul
        vec![255, 255, 255, 255, 255, 255, 255, 255],
        // 98
        vec![98],
        // 98
        vec![98],
        // 18446744073709551614ul
        vec![254, 255, 255, 255, 255, 255, 255, 255],
        // 72340172838076673ul
        vec![1, 1, 1, 1, 1, 1, 1, 1],
        // 97
        vec![97],
        // 97
        vec![97],
        // 251
        vec![251],
        // 0
        vec![0],
        // 1
        vec![1],
        // 18446744073709551614ul
        vec![254, 255, 255, 255, 255, 255, 255, 255],
        // 72340172838076673ul
        vec![1, 1, 1, 1, 1, 1, 1, 1],
        // 97
        vec![97],
        // 97
        vec![97],
        // 2
        vec![2],
    ];
    crate::error::verif_harness::set_replay(); kani::concrete_playback_run(concrete_vals, super::verif_harness::c11_parent_match_file);
}

/// Test generated for harness `archiver::parent::verif_harness::c11_parent_match_file` 
///
/// Check for `assertion`: "assertion failed: out_node.content == Some(vec![did(idb)])"
///
/// # Warning
///
/// Concrete playback tests combined with stubs or contracts is highly
/// experimental, and subject to change.
///
/// The original harness has stubs which are not applied to this test.
/// This may cause a mismatch of non-deterministic values if the stub
/// creates any non-deterministic value.
/// The execution path may also differ, which can be used to refine the stub
/// logic.

#[test]

fn kani_concrete_playback_c11_parent_match_file_5763892141549684311() {
    let concrete_vals: Vec<Vec<u8>> = vec![
        // 18446744073709551615ul
        vec![255, 255, 255, 255, 255, 255, 255, 255],
        // 18446744073709551615ul
        vec![255, 255, 255, 255, 255, 255, 255, 255],
        // 98
        vec![98],
        // 98
        vec![98],
        // 3ul
        vec![3, 0, 0, 0, 0, 0, 0, 0],
        // 18446744073709551615ul
        vec![255, 255, 255, 255, 255, 255, 255, 255],
        // 98
        vec![98],
        // 96
        vec![96],
        // 255
        vec![255],
        // 0
        vec![0],
        // 1
        vec![1],
        // 3ul
        vec![3, 0, 0, 0, 0, 0, 0, 0],
        // 18446744073709551615ul
        vec![255, 255, 255, 255, 255, 255, 255, 255],
        // 98
        vec![98],
        // 98
        vec![98],
        // 2
        vec![2],
    ];
    crate::error::verif_harness::set_replay(); kani::concrete_playback_run(concrete_vals, super::verif_harness::c11_parent_match_file);
}

/// Test generated for harness `archiver::parent::verif_harness::c11_parent_match_file` 
///
/// Check for `cover`: "file reused from the parent"
///
/// # Warning
///
/// Concrete playback tests combined with stubs or contracts is highly
/// experimental, and subject to change.
///
/// The original harness has stubs which are not applied to this test.
/// This may cause a mismatch of non-deterministic values if the stub
/// creates any non-deterministic value.
/// The execution path may also differ, which can be used to refine the stub
/// logic.

#[test]

fn kani_concrete_playback_c11_parent_match_file_18112144982531486551() {
    let concrete_vals: Vec<Vec<u8>> = vec![
        // 18446744073709551615ul
        vec![255, 255, 255, 255, 255, 255, 255, 255],
        // 18446744073709551615ul
        vec![255, 255, 255, 255, 255, 255, 255, 255],
        // 98
        vec![98],
        // 98
        vec![98],
        // 18446744073709551614ul
        vec![254, 255, 255, 255, 255, 255, 255, 255],
        // 72340172838076673ul
        vec![1, 1, 1, 1, 1, 1, 1, 1],
        // 97
        vec![97],
        // 97
        vec![97],
        // 255
        vec![255],
        // 1
        vec![1],
        // 1
        vec![1],
        // 18446744073709551614ul
        vec![254, 255, 255, 255, 255, 255, 255, 255],
        // 72340172838076673ul
        vec![1, 1, 1, 1, 1, 1, 1, 1],
        // 97
        vec![97],
        // 98
        vec![98],
        // 2
        vec![2],
    ];
    crate::error::verif_harness::set_replay(); kani::concrete_playback_run(concrete_vals, super::verif_harness::c11_parent_match_file);
}

}
