// replay of a solver counterexample
// property: C18
// harness: blob::packer::verif_harness::c18_pack_size_no_overflow
// failing checks: blob::packer::PackSizer::pack_size: attempt to multiply with overflow @ crates/core/src/blob/packer.rs:141; blob::packer::PackSizer::pack_size: attempt to add with overflow @ crates/core/src/blob/packer.rs:141
// module file: crates/core/src/blob/packer.rs
// re-run: /verif/check --replay /verif/replays/C18/c18_pack_size_no_overflow.rs
#[cfg(kani)]
mod verif_replay {
/// Test generated for harness `blob::packer::verif_harness::c18_pack_size_no_overflow` 
///
/// Check for `assertion`: "attempt to multiply with overflow"

#[test]

fn kani_concrete_playback_c18_pack_size_no_overflow_980434923253041179() {
    let concrete_vals: Vec<Vec<u8>> = vec![
        // 1343356928
        vec![0, 0, 18, 80],
        // 226055511
        vec![87, 85, 121, 13],
        // 4294967295
        vec![255, 255, 255, 255],
        // 17179934688ul
        vec![224, 255, 0, 0, 4, 0, 0, 0],
        // 4294967295
        vec![255, 255, 255, 255],
        // 4294967295
        vec![255, 255, 255, 255],
    ];
    kani::concrete_playback_run(concrete_vals, super::verif_harness::c18_pack_size_no_overflow);
}

/// Test generated for harness `blob::packer::verif_harness::c18_pack_size_no_overflow` 
///
/// Check for `assertion`: "attempt to add with overflow"

#[test]

fn kani_concrete_playback_c18_pack_size_no_overflow_12001092623994825157() {
    let concrete_vals: Vec<Vec<u8>> = vec![
        // 4291952640
        vec![0, 0, 210, 255],
        // 32119
        vec![119, 125, 0, 0],
        // 4294967295
        vec![255, 255, 255, 255],
        // 17179934688ul
        vec![224, 255, 0, 0, 4, 0, 0, 0],
        // 4294967295
        vec![255, 255, 255, 255],
        // 4294967295
        vec![255, 255, 255, 255],
    ];
    kani::concrete_playback_run(concrete_vals, super::verif_harness::c18_pack_size_no_overflow);
}

/// Test generated for harness `blob::packer::verif_harness::c18_pack_size_no_overflow` 
///
/// Check for `cover`: "reached"

#[test]

fn kani_concrete_playback_c18_pack_size_no_overflow_7820142295345683381() {
    let concrete_vals: Vec<Vec<u8>> = vec![
        // 0
        vec![0, 0, 0, 0],
        // 2147483648
        vec![0, 0, 0, 128],
        // 0
        vec![0, 0, 0, 0],
        // 0ul
        vec![0, 0, 0, 0, 0, 0, 0, 0],
        // 0
        vec![0, 0, 0, 0],
        // 0
        vec![0, 0, 0, 0],
    ];
    kani::concrete_playback_run(concrete_vals, super::verif_harness::c18_pack_size_no_overflow);
}

}
