// replay of a solver counterexample
// property: C18
// harness: commands::prune::verif_harness::c18_decide_repack_limits
// failing checks: <u64 as std::ops::Mul>::mul: attempt to multiply with overflow @ /home/runner/.rustup/toolchains/nightly-2026-08-21-x86_64-unknown-linux-gnu/lib/rustlib/src/rust/library/core/src/ops/arith.rs:350; <u64 as std::ops::Sub>::sub: attempt to subtract with overflow @ /home/runner/.rustup/toolchains/nightly-2026-08-21-x86_64-unknown-linux-gnu/lib/rustlib/src/rust/library/core/src/ops/arith.rs:216; commands::prune::PrunePlan::decide_repack: attempt to divide by zero @ crates/core/src/commands/prune.rs:1000
// module file: crates/core/src/commands/prune.rs
// re-run: /verif/check --replay /verif/replays/C18/c18_decide_repack_limits.rs
#[cfg(kani)]
mod verif_replay {
/// Test generated for harness `commands::prune::verif_harness::c18_decide_repack_limits` 
///
/// Check for `assertion`: "attempt to divide by zero"

#[test]

fn kani_concrete_playback_c18_decide_repack_limits_100634027127656961() {
    let concrete_vals: Vec<Vec<u8>> = vec![
        // 0ul
        vec![0, 0, 0, 0, 0, 0, 0, 0],
        // 0ul
        vec![0, 0, 0, 0, 0, 0, 0, 0],
        // 0ul
        vec![0, 0, 0, 0, 0, 0, 0, 0],
        // 0ul
        vec![0, 0, 0, 0, 0, 0, 0, 0],
        // 0ul
        vec![0, 0, 0, 0, 0, 0, 0, 0],
        // 0ul
        vec![0, 0, 0, 0, 0, 0, 0, 0],
        // 0ul
        vec![0, 0, 0, 0, 0, 0, 0, 0],
        // 0ul
        vec![0, 0, 0, 0, 0, 0, 0, 0],
        // 0ul
        vec![0, 0, 0, 0, 0, 0, 0, 0],
        // 0ul
        vec![0, 0, 0, 0, 0, 0, 0, 0],
        // 0
        vec![0],
        // 128
        vec![128],
        // 100ul
        vec![100, 0, 0, 0, 0, 0, 0, 0],
        // 0
        vec![0, 0, 0, 0],
        // 0
        vec![0],
        // 0
        vec![0],
    ];
    kani::concrete_playback_run(concrete_vals, super::verif_harness::c18_decide_repack_limits);
}

/// Test generated for harness `commands::prune::verif_harness::c18_decide_repack_limits` 
///
/// Check for `assertion`: "attempt to subtract with overflow"

#[test]

fn kani_concrete_playback_c18_decide_repack_limits_5522691117265461916() {
    let concrete_vals: Vec<Vec<u8>> = vec![
        // 1ul
        vec![1, 0, 0, 0, 0, 0, 0, 0],
        // 193142336528973ul
        vec![77, 34, 92, 116, 169, 175, 0, 0],
        // 193142336528966ul
        vec![70, 34, 92, 116, 169, 175, 0, 0],
        // 1125899906842624ul
        vec![0, 0, 0, 0, 0, 0, 4, 0],
        // 0ul
        vec![0, 0, 0, 0, 0, 0, 0, 0],
        // 281474976710655ul
        vec![255, 255, 255, 255, 255, 255, 0, 0],
        // 562949953421312ul
        vec![0, 0, 0, 0, 0, 0, 2, 0],
        // 281474976710656ul
        vec![0, 0, 0, 0, 0, 0, 1, 0],
        // 1125899906842624ul
        vec![0, 0, 0, 0, 0, 0, 4, 0],
        // 281474976710656ul
        vec![0, 0, 0, 0, 0, 0, 1, 0],
        // 253
        vec![253],
        // 14988824019179675815ul
        vec![167, 32, 12, 0, 8, 0, 3, 208],
        // 248
        vec![248],
        // 105ul
        vec![105, 0, 0, 0, 0, 0, 0, 0],
        // 4273995776
        vec![0, 0, 192, 254],
        // 0
        vec![0],
        // 1
        vec![1],
    ];
    kani::concrete_playback_run(concrete_vals, super::verif_harness::c18_decide_repack_limits);
}

/// Test generated for harness `commands::prune::verif_harness::c18_decide_repack_limits` 
///
/// Check for `cover`: "decide_repack returned"

#[test]

fn kani_concrete_playback_c18_decide_repack_limits_3516262317232555540() {
    let concrete_vals: Vec<Vec<u8>> = vec![
        // 0ul
        vec![0, 0, 0, 0, 0, 0, 0, 0],
        // 0ul
        vec![0, 0, 0, 0, 0, 0, 0, 0],
        // 0ul
        vec![0, 0, 0, 0, 0, 0, 0, 0],
        // 0ul
        vec![0, 0, 0, 0, 0, 0, 0, 0],
        // 0ul
        vec![0, 0, 0, 0, 0, 0, 0, 0],
        // 0ul
        vec![0, 0, 0, 0, 0, 0, 0, 0],
        // 0ul
        vec![0, 0, 0, 0, 0, 0, 0, 0],
        // 0ul
        vec![0, 0, 0, 0, 0, 0, 0, 0],
        // 0ul
        vec![0, 0, 0, 0, 0, 0, 0, 0],
        // 0ul
        vec![0, 0, 0, 0, 0, 0, 0, 0],
        // 0
        vec![0],
        // 0
        vec![0],
        // 0
        vec![0, 0, 0, 0],
        // 0
        vec![0],
        // 0
        vec![0],
    ];
    kani::concrete_playback_run(concrete_vals, super::verif_harness::c18_decide_repack_limits);
}

/// Test generated for harness `commands::prune::verif_harness::c18_decide_repack_limits` 
///
/// Check for `assertion`: "attempt to multiply with overflow"

#[test]

fn kani_concrete_playback_c18_decide_repack_limits_13146662351808851928() {
    let concrete_vals: Vec<Vec<u8>> = vec![
        // 1ul
        vec![1, 0, 0, 0, 0, 0, 0, 0],
        // 193142336528973ul
        vec![77, 34, 92, 116, 169, 175, 0, 0],
        // 193142336528966ul
        vec![70, 34, 92, 116, 169, 175, 0, 0],
        // 1125899906842624ul
        vec![0, 0, 0, 0, 0, 0, 4, 0],
        // 0ul
        vec![0, 0, 0, 0, 0, 0, 0, 0],
        // 281474976710655ul
        vec![255, 255, 255, 255, 255, 255, 0, 0],
        // 562949953421312ul
        vec![0, 0, 0, 0, 0, 0, 2, 0],
        // 281474976710656ul
        vec![0, 0, 0, 0, 0, 0, 1, 0],
        // 1125899906842624ul
        vec![0, 0, 0, 0, 0, 0, 4, 0],
        // 281474976710656ul
        vec![0, 0, 0, 0, 0, 0, 1, 0],
        // 254
        vec![254],
        // 14988824019179675815ul
        vec![167, 32, 12, 0, 8, 0, 3, 208],
        // 253
        vec![253],
        // 127ul
        vec![127, 0, 0, 0, 0, 0, 0, 0],
        // 4273995776
        vec![0, 0, 192, 254],
        // 0
        vec![0],
        // 1
        vec![1],
    ];
    kani::concrete_playback_run(concrete_vals, super::verif_harness::c18_decide_repack_limits);
}

}
