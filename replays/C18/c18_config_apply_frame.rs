// replay of a solver counterexample
// property: C18
// harness: commands::config::verif_harness::c18_config_apply_frame
// failing checks: commands::config::verif_harness::c18_config_apply_frame: assertion failed: config.extra_verify == old.extra_verify @ /verif/harness/commands_config.rs:102; chunker::rabin::check_rabin_params: attempt to subtract with overflow @ crates/core/src/chunker/rabin.rs:22
// module file: crates/core/src/commands/config.rs
// re-run: /verif/check --replay /verif/replays/C18/c18_config_apply_frame.rs
#[cfg(kani)]
mod verif_replay {
/// Test generated for harness `commands::config::verif_harness::c18_config_apply_frame` 
///
/// Check for `cover`: "apply accepted"
///
/// # Warning
///
/// Concrete playback tests combined with stubs or contracts is highly
/// experimental, and subject to change.
///
/// The original harness has stubs which are not applied to this test.
/// This may cause a mismatch of non-deterministic values if the stub
/// creates any non-deterministic value.
/// The execution path may also differ, which can be used to refine the stub
/// logic.

#[test]

fn kani_concrete_playback_c18_config_apply_frame_7832971879409210971() {
    let concrete_vals: Vec<Vec<u8>> = vec![
        // 2
        vec![2, 0, 0, 0],
        // 0
        vec![0],
        // 0
        vec![0],
        // 0
        vec![0],
        // 0
        vec![0],
        // 0
        vec![0],
        // 0
        vec![0],
        // 0
        vec![0],
        // 0
        vec![0],
        // 0
        vec![0],
        // 0
        vec![0],
        // 0
        vec![0],
        // 0
        vec![0],
        // 0
        vec![0],
        // 0
        vec![0],
        // 0
        vec![0],
        // 0
        vec![0],
        // 0
        vec![0],
        // 0
        vec![0],
        // 0
        vec![0],
        // 0
        vec![0],
        // 0
        vec![0],
        // 0
        vec![0],
        // 0
        vec![0],
        // 0
        vec![0],
        // 0
        vec![0],
        // 0
        vec![0],
        // 0
        vec![0],
        // 0
        vec![0],
        // 0
        vec![0],
        // 0
        vec![0],
        // 0
        vec![0],
        // 0
        vec![0],
    ];
    kani::concrete_playback_run(concrete_vals, super::verif_harness::c18_config_apply_frame);
}

/// Test generated for harness `commands::config::verif_harness::c18_config_apply_frame` 
///
/// Check for `cover`: "accepted with extra_verify unnamed"
///
/// # Warning
///
/// Concrete playback tests combined with stubs or contracts is highly
/// experimental, and subject to change.
///
/// The original harness has stubs which are not applied to this test.
/// This may cause a mismatch of non-deterministic values if the stub
/// creates any non-deterministic value.
/// The execution path may also differ, which can be used to refine the stub
/// logic.

#[test]

fn kani_concrete_playback_c18_config_apply_frame_2438065642889262877() {
    let concrete_vals: Vec<Vec<u8>> = vec![
        // 1
        vec![1, 0, 0, 0],
        // 1
        vec![1],
        // 1
        vec![1],
        // 1
        vec![1],
        // 18446744073709551615ul
        vec![255, 255, 255, 255, 255, 255, 255, 255],
        // 1
        vec![1],
        // 18446744073709551615ul
        vec![255, 255, 255, 255, 255, 255, 255, 255],
        // 1
        vec![1],
        // 18446744073709551615ul
        vec![255, 255, 255, 255, 255, 255, 255, 255],
        // 0
        vec![0],
        // 0
        vec![0],
        // 1
        vec![1],
        // -2147483648
        vec![0, 0, 0, 128],
        // 0
        vec![0],
        // 0
        vec![0],
        // 0
        vec![0],
        // 0
        vec![0],
        // 0
        vec![0],
        // 0
        vec![0],
        // 0
        vec![0],
        // 0
        vec![0],
        // 1
        vec![1],
        // 0
        vec![0],
        // 1
        vec![1],
        // 2
        vec![2, 0, 0, 0],
        // 1
        vec![1],
        // 1
        vec![1],
        // 1
        vec![1],
        // 1ul
        vec![1, 0, 0, 0, 0, 0, 0, 0],
        // 1
        vec![1],
        // 1ul
        vec![1, 0, 0, 0, 0, 0, 0, 0],
        // 0
        vec![0],
        // 0
        vec![0],
        // 0
        vec![0],
        // 0
        vec![0],
        // 0
        vec![0],
        // 0
        vec![0],
        // 0
        vec![0],
        // 0
        vec![0],
        // 0
        vec![0],
        // 0
        vec![0],
        // 0
        vec![0],
        // 0
        vec![0],
    ];
    kani::concrete_playback_run(concrete_vals, super::verif_harness::c18_config_apply_frame);
}

/// Test generated for harness `commands::config::verif_harness::c18_config_apply_frame` 
///
/// Check for `assertion`: "attempt to subtract with overflow"
///
/// # Warning
///
/// Concrete playback tests combined with stubs or contracts is highly
/// experimental, and subject to change.
///
/// The original harness has stubs which are not applied to this test.
/// This may cause a mismatch of non-deterministic values if the stub
/// creates any non-deterministic value.
/// The execution path may also differ, which can be used to refine the stub
/// logic.

#[test]

fn kani_concrete_playback_c18_config_apply_frame_15461728918763962872() {
    let concrete_vals: Vec<Vec<u8>> = vec![
        // 2
        vec![2, 0, 0, 0],
        // 0
        vec![0],
        // 0
        vec![0],
        // 1
        vec![1],
        // 0ul
        vec![0, 0, 0, 0, 0, 0, 0, 0],
        // 0
        vec![0],
        // 0
        vec![0],
        // 1
        vec![1],
        // 0
        vec![0],
        // 1
        vec![1],
        // -262144
        vec![0, 0, 252, 255],
        // 1
        vec![1],
        // 4294967295
        vec![255, 255, 255, 255],
        // 1
        vec![1],
        // 4294967295
        vec![255, 255, 255, 255],
        // 1
        vec![1],
        // 4294967295
        vec![255, 255, 255, 255],
        // 0
        vec![0],
        // 1
        vec![1],
        // 4294967295
        vec![255, 255, 255, 255],
        // 0
        vec![0],
        // 1
        vec![1],
        // 4294967295
        vec![255, 255, 255, 255],
        // 1
        vec![1],
        // 4294967295
        vec![255, 255, 255, 255],
        // 0
        vec![0],
        // 0
        vec![0],
        // 0
        vec![0],
        // 1
        vec![1],
        // 0ul
        vec![0, 0, 0, 0, 0, 0, 0, 0],
        // 0
        vec![0],
        // 1
        vec![1],
        // 18446744073709551615ul
        vec![255, 255, 255, 255, 255, 255, 255, 255],
        // 1
        vec![1],
        // -262144
        vec![0, 0, 252, 255],
        // 0
        vec![0],
        // 0
        vec![0],
        // 0
        vec![0],
        // 0
        vec![0],
        // 1
        vec![1],
        // 4294967295ul
        vec![255, 255, 255, 255, 0, 0, 0, 0],
        // 0
        vec![0],
        // 1
        vec![1],
        // 4294967295ul
        vec![255, 255, 255, 255, 0, 0, 0, 0],
        // 0
        vec![0],
        // 0
        vec![0],
        // 0
        vec![0],
    ];
    kani::concrete_playback_run(concrete_vals, super::verif_harness::c18_config_apply_frame);
}

}
