// replay of a solver counterexample
// property: C09
// harness: commands::forget::verif_harness::c09_period_predicates
// failing checks: commands::forget::verif_harness::predicates_check: assertion failed: equal_minute(&s0, &s1) == same_period(Rule::Minutely, &c0, &c1) @ /verif/harness/commands_forget.rs:239
// module file: crates/core/src/commands/forget.rs
// re-run: /verif/check --replay /verif/replays/C09/c09_period_predicates.rs
#[cfg(kani)]
mod verif_replay {
#[test]

fn kani_concrete_playback_c09_period_predicates_10479942005373582767() {
    let concrete_vals: Vec<Vec<u8>> = vec![
        // 2014
        vec![222, 7],
        // 8
        vec![8],
        // 12
        vec![12],
        // 7
        vec![7],
        // 0
        vec![0],
        // 2014
        vec![222, 7],
        // 8
        vec![8],
        // 6
        vec![6],
        // 7
        vec![7],
        // 0
        vec![0],
    ];
    crate::error::verif_harness::set_replay(); kani::concrete_playback_run(concrete_vals, super::verif_harness::c09_period_predicates);
}

#[test]

fn kani_concrete_playback_c09_period_predicates_5758284136655592507() {
    let concrete_vals: Vec<Vec<u8>> = vec![
        // 2018
        vec![226, 7],
        // 7
        vec![7],
        // 8
        vec![8],
        // 15
        vec![15],
        // 29
        vec![29],
        // 2018
        vec![226, 7],
        // 7
        vec![7],
        // 8
        vec![8],
        // 15
        vec![15],
        // 28
        vec![28],
    ];
    crate::error::verif_harness::set_replay(); kani::concrete_playback_run(concrete_vals, super::verif_harness::c09_period_predicates);
}

#[test]

fn kani_concrete_playback_c09_period_predicates_15773491628311410416() {
    let concrete_vals: Vec<Vec<u8>> = vec![
        // 2018
        vec![226, 7],
        // 12
        vec![12],
        // 31
        vec![31],
        // 92
        vec![10],
        // 5
        vec![5],
        // 2018
        vec![226, 7],
        // 8
        vec![8],
        // 31
        vec![31],
        // 7
        vec![7],
        // 28
        vec![28],
    ];
    crate::error::verif_harness::set_replay(); kani::concrete_playback_run(concrete_vals, super::verif_harness::c09_period_predicates);
}

}
