// replay of a solver counterexample
// property: C09
// harness: commands::forget::verif_harness::c09_week_predicate
// failing checks: commands::forget::verif_harness::predicates_check: assertion failed: equal_week(&s0, &s1) == same_period(Rule::Weekly, &c0, &c1) @ /verif/harness/commands_forget.rs:253
// module file: crates/core/src/commands/forget.rs
// re-run: /verif/check --replay /verif/replays/C09/c09_week_predicate.rs
#[cfg(kani)]
mod verif_replay {
#[test]

fn kani_concrete_playback_c09_week_predicate_14067711426100038349() {
    let concrete_vals: Vec<Vec<u8>> = vec![
        // 2016
        vec![224, 7],
        // 1
        vec![1],
        // 2
        vec![2],
        // 7
        vec![7],
        // 5
        vec![5],
        // 2015
        vec![223, 7],
        // 12
        vec![12],
        // 29
        vec![29],
        // 92
        vec![9],
        // 1
        vec![1],
    ];
    crate::error::verif_harness::set_replay(); kani::concrete_playback_run(concrete_vals, super::verif_harness::c09_week_predicate);
}

}
