#![allow(warnings, clippy::all, clippy::pedantic, clippy::nursery)]
//@ module: chunker::fixed_size
use super::*;
use crate::error::verif_harness as vh;
use crate::chunker::rabin::verif_harness::FragReader;

//@ harness: c06_fixed_size_partition
//@ prop: C06
//@ tier: quick
//@ timeout: 900
//@ mem: 10
//@ fsarray: 256
//@ kernel: chunker::fixed_size::ChunkIter::{new,next}
//@ bound: chunk size 3; stream length symbolic 0..=6, all bytes symbolic; read fragmentation: up to 2 short reads of symbolic length at symbolic points, other reads full; size_hint usize::MAX (the archiver passes the file size; capacity is then the chunk size); four calls of next() (at most 3 chunks + end); unwind 9
//@ oracle: lossless, every chunk but the last has exactly `size` bytes, last is 1..=size bytes, no empty chunk, iteration ends exactly at end of stream
//@ stub: std::io::Read::read_to_end -> contract model (reads via the same Read::read until EOF, appends once); std's implementation is out of CBMC's reach
//@ assume: chunk size >= 1 (size 0 is refused at configuration time: c18_config_accepted_is_usable)
#[kani::proof]
#[kani::unwind(9)]
#[kani::stub(std::backtrace::Backtrace::capture, crate::error::verif_harness::stub_backtrace_capture)]
#[kani::stub(std::io::Read::read_to_end, crate::chunker::rabin::verif_harness::ReadToEndModel::read_to_end)]
pub(crate) fn c06_fixed_size_partition() {
    const N: usize = 6;
    let size: usize = 3;
    let data: [u8; N] = kani::any();
    let len: usize = kani::any();
    kani::assume(len <= N);
    let mut it = ChunkIter::new(size, FragReader::<N, false> { data, len, pos: 0, intr: 0, short: 2 }, usize::MAX);
    let mut start = 0usize;
    let mut n = 0usize;
    let mut done = false;
    let mut k = 0;
    while k < 4 {
        if !done {
            match it.next() {
                None => { done = true; }
                Some(Ok(v)) => {
                    assert!(!v.is_empty() && v.len() <= size);
                    assert!(start + v.len() <= len);
                    if start + v.len() < len { assert!(v.len() == size); }
                    let mut i = 0;
                    while i < v.len() { assert!(v[i] == data[start + i]); i += 1; }
                    start += v.len();
                    n += 1;
                    std::mem::forget(v);
                }
                Some(Err(e)) => { std::mem::forget(e); assert!(false); }
            }
        }
        k += 1;
    }
    assert!(done);
    assert!(start == len);
    kani::cover!(n == 2, "two full chunks");
    kani::cover!(len == 0, "empty stream");
    std::mem::forget(it);
}
