#![allow(warnings, clippy::all, clippy::pedantic, clippy::nursery)]
//@ module: chunker::fixed_size
use super::*;
use crate::error::verif_harness as vh;
use crate::chunker::rabin::verif_harness::FragReader;

//@ harness: c06_fixed_size_partition
//@ prop: C06
//@ tier: quick
//@ timeout: 900
//@ mem: 10
//@ kernel: chunker::fixed_size::ChunkIter::{new,next}
//@ bound: chunk size symbolic 2..=4; stream length symbolic 0..=6, all bytes symbolic; symbolic read fragmentation; size_hint 0; four calls of next() (at most 3 chunks + end); unwind 12
//@ oracle: lossless, every chunk but the last has exactly `size` bytes, last is 1..=size bytes, no empty chunk, iteration ends exactly at end of stream
//@ assume: chunk size >= 1 (size 0 is refused at configuration time: c18_config_accepted_is_usable)
#[kani::proof]
#[kani::unwind(12)]
#[kani::stub(std::backtrace::Backtrace::capture, crate::error::verif_harness::stub_backtrace_capture)]
#[kani::stub(crate::error::RusticError::new, crate::error::verif_harness::stub_rustic_new)]
#[kani::stub(crate::error::RusticError::attach_context, crate::error::verif_harness::stub_attach_context)]
#[kani::stub(crate::error::RusticError::attach_source, crate::error::verif_harness::stub_attach_source)]
pub(crate) fn c06_fixed_size_partition() {
    const N: usize = 6;
    let size: usize = kani::any();
    kani::assume(size >= 2 && size <= 4);
    let data: [u8; N] = kani::any();
    let len: usize = kani::any();
    kani::assume(len <= N);
    let mut it = ChunkIter::new(size, FragReader::<N, false> { data, len, pos: 0, intr: 0 }, 0);
    let mut start = 0usize;
    let mut n = 0usize;
    let mut done = false;
    let mut k = 0;
    while k < 4 {
        if !done {
            match it.next() {
                None => { done = true; }
                Some(Ok(v)) => {
                    assert!(!v.is_empty() && v.len() <= size);
                    assert!(start + v.len() <= len);
                    if start + v.len() < len { assert!(v.len() == size); }
                    let mut i = 0;
                    while i < v.len() { assert!(v[i] == data[start + i]); i += 1; }
                    start += v.len();
                    n += 1;
                    std::mem::forget(v);
                }
                Some(Err(e)) => { std::mem::forget(e); assert!(false); }
            }
        }
        k += 1;
    }
    assert!(done);
    assert!(start == len);
    kani::cover!(n == 3, "three chunks");
    kani::cover!(len == 0, "empty stream");
    std::mem::forget(it);
}
