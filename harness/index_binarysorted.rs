#![allow(warnings, clippy::all, clippy::pedantic, clippy::nursery)]
//@ module: index::binarysorted
use super::*;
use crate::error::verif_harness as vh;
use crate::index::GlobalIndex;
use crate::blob::{DataId, tree::TreeId};

/// ids from a 4-element domain (b || 0^31, b < 4) so duplicates and cross-type collisions occur
fn any_bid() -> BlobId {
    let b: u8 = kani::any();
    kani::assume(b < 4);
    BlobId::from(vh::mk_id(b))
}
fn pid(b: u8) -> PackId { PackId::from(vh::mk_id(b)) }
fn any_loc() -> BlobLocation {
    BlobLocation { offset: kani::any(), length: kani::any(), uncompressed_length: std::num::NonZeroU32::new(kani::any()) }
}
fn any_type() -> BlobType { if kani::any() { BlobType::Tree } else { BlobType::Data } }

#[derive(Clone, Copy)]
struct Row { id: BlobId, pack_idx: u32, loc: BlobLocation }

/// N entries, *assumed* sorted by id (the fact `into_index`'s sort establishes), pack_idx < npacks
fn sorted_rows<const N: usize>(npacks: u32) -> [Row; N] {
    let rows: [Row; N] = core::array::from_fn(|_| {
        let pi: u32 = kani::any();
        kani::assume(pi < npacks);
        Row { id: any_bid(), pack_idx: pi, loc: any_loc() }
    });
    let mut i = 0;
    while i + 1 < N {
        kani::assume(rows[i].id <= rows[i + 1].id);
        i += 1;
    }
    rows
}
fn full<const N: usize>(rows: &[Row; N]) -> EntriesVariants {
    let mut v = Vec::with_capacity(N);
    let mut i = 0;
    while i < N { v.push(SortedEntry { id: rows[i].id, pack_idx: rows[i].pack_idx, location: rows[i].loc }); i += 1; }
    EntriesVariants::FullEntries(v)
}
fn ids<const N: usize>(rows: &[Row; N]) -> EntriesVariants {
    let mut v = Vec::with_capacity(N);
    let mut i = 0;
    while i < N { v.push(rows[i].id); i += 1; }
    EntriesVariants::Ids(v)
}

/// mode: 0 = Full, 1 = DataIds, 2 = OnlyTrees (what IndexCollector::new sets up per mode)
fn lookup_check<const ND: usize, const NT: usize>(mode: u8) {
    let packs_d = [pid(10), pid(11)];
    let packs_t = [pid(20), pid(21)];
    let d = sorted_rows::<ND>(2);
    let t = sorted_rows::<NT>(2);
    let data_entries = match mode { 0 => full(&d), 1 => ids(&d), _ => EntriesVariants::None };
    let idx = Index(enum_map::enum_map! {
        BlobType::Tree => TypeIndex { packs: vec![packs_t[0], packs_t[1]], entries: full(&t), total_size: 0 },
        BlobType::Data => TypeIndex { packs: vec![packs_d[0], packs_d[1]], entries: match mode { 0 => full(&d), 1 => ids(&d), _ => EntriesVariants::None }, total_size: 0 },
    });
    std::mem::forget(data_entries);
    let gi = GlobalIndex::new_from_index(idx);
    let q = any_bid();
    // the query type is a symbolic choice, but concrete on each path (a symbolic EnumMap index makes
    // every later pointer an if-then-else over objects: SAT memory > 8 GB)
    if kani::any() { lookup_query::<ND, NT>(&gi, mode, &d, &t, &packs_d, &packs_t, q, BlobType::Tree); }
    else { lookup_query::<ND, NT>(&gi, mode, &d, &t, &packs_d, &packs_t, q, BlobType::Data); }
    std::mem::forget(gi);
}

fn lookup_query<const ND: usize, const NT: usize>(gi: &GlobalIndex, mode: u8, d: &[Row; ND], t: &[Row; NT], packs_d: &[PackId; 2], packs_t: &[PackId; 2], q: BlobId, tpe: BlobType) {
    // reference: linear scan of the rows of that type
    let mut listed = false;
    let mut i = 0;
    if tpe == BlobType::Data { while i < ND { if d[i].id == q { listed = true; } i += 1; } }
    else { while i < NT { if t[i].id == q { listed = true; } i += 1; } }
    let retains_presence = tpe == BlobType::Tree || mode != 2;
    let retains_location = tpe == BlobType::Tree || mode == 0;
    let has = gi.has(tpe, &q);
    assert!(has == (listed && retains_presence));
    let got = gi.get_id(tpe, &q);
    match got {
        None => assert!(!(listed && retains_location)),
        Some(e) => {
            assert!(listed && retains_location);
            let mut ok = false;
            let mut i = 0;
            if tpe == BlobType::Data {
                while i < ND { if d[i].id == q && e.pack == packs_d[d[i].pack_idx as usize] && e.location == d[i].loc { ok = true; } i += 1; }
            } else {
                while i < NT { if t[i].id == q && e.pack == packs_t[t[i].pack_idx as usize] && e.location == t[i].loc { ok = true; } i += 1; }
            }
            assert!(ok);
            assert!(e == IndexEntry::new(tpe, e.pack, e.location));
            kani::cover!(true, "get_id returned a listing");
        }
    }
    // typed convenience lookups agree
    let raw = crate::id::Id::from(*q);
    if tpe == BlobType::Tree {
        assert!(gi.has_tree(&TreeId::from(raw)) == has);
        assert!(gi.get_tree(&TreeId::from(raw)) == got);
    } else {
        assert!(gi.has_data(&DataId::from(raw)) == has);
        assert!(gi.get_data(&DataId::from(raw)) == got);
    }
    kani::cover!(mode != 2 || (listed && !retains_presence), "trees-only mode: a listed data blob is invisible");
    kani::cover!(has, "present");
    kani::cover!(!listed, "absent");
}

macro_rules! lookup_instance {
    ($name:ident, $nd:expr, $nt:expr, $mode:expr) => {
        #[kani::proof]
        #[kani::unwind(6)]
        pub(crate) fn $name() { lookup_check::<$nd, $nt>($mode); }
    };
}
//@ instance: c17_lookup_full_d2_t1 c17_lookup_full_d3_t2 c17_lookup_ids_d3_t1 c17_lookup_trees_d2_t2 c17_lookup_full_d4_t1
//@ harness: c17_lookup_full_d2_t1 c17_lookup_ids_d3_t1 c17_lookup_trees_d2_t2
//@ prop: C17
//@ tier: quick
//@ timeout: 2400
//@ mem: 10
//@ unwindset: ^memcmp#0=34
//@ fsarray: 1024
//@ kernel: Index::{get_id,has} (binary search), GlobalIndex::{new_from_index,get_id,has}, ReadIndex::{get_tree,get_data,has_tree,has_data}, IndexEntry::new
//@ bound: per instance dN_tM: N data and M tree entries (concrete counts), ids symbolic in {0,1,2,3}||0^31 (duplicates and same id under both types occur), pack index, offset, length, uncompressed length symbolic; index mode Full / DataIds / OnlyTrees per instance; symbolic (type,id) query; loops unwound 6 (binary search needs <= 3 iterations for <= 4 entries), memcmp 34
//@ oracle: has <=> a row of that type lists the id and the mode retains presence; get_id is Some <=> listed and the mode retains locations, and (pack,offset,length,uncompressed) equal one listing of that (type,id); tree/data never mix; typed helpers agree
//@ assume: each entry vector is sorted by id - the post-condition of the sort in IndexCollector::into_index (rayon par_sort_unstable*, trusted: Kani cannot compile rayon, DESIGN 1.3a)
//@ outside: IndexCollector::into_index and Index::into_iter themselves (two rayon sort calls)
lookup_instance!(c17_lookup_full_d2_t1, 2, 1, 0);
lookup_instance!(c17_lookup_ids_d3_t1, 3, 1, 1);
lookup_instance!(c17_lookup_trees_d2_t2, 2, 2, 2);
//@ harness: c17_lookup_full_d3_t2 c17_lookup_full_d4_t1
//@ prop: C17
//@ tier: thorough
//@ timeout: 1800
//@ unwindset: ^memcmp#0=34
//@ fsarray: 1024
//@ kernel: as c17_lookup_full_d2_t1
//@ bound: as c17_lookup_full_d2_t1 with 3+2 and 4+1 entries
//@ oracle: as c17_lookup_full_d2_t1
//@ assume: entry vectors sorted by id (post-condition of the trusted rayon sort)
lookup_instance!(c17_lookup_full_d3_t2, 3, 2, 0);
lookup_instance!(c17_lookup_full_d4_t1, 4, 1, 0);

// ---------------------------------------------------------------------------
// collector: IndexCollector::{new, extend}
// ---------------------------------------------------------------------------
fn mk_pack(n: u8, tpe: BlobType, nblobs: usize, with_size: bool) -> IndexPack {
    // built from array literals (typed allocation): CBMC then folds `blobs[0].tpe` to a constant, which the
    // real `extend` uses as an EnumMap index (a symbolic index there costs > 12 GB of SAT memory)
    let b = || IndexBlob { id: any_bid(), tpe, location: any_loc() };
    let blobs = match nblobs { 0 => Vec::new(), 1 => vec![b()], _ => vec![b(), b()] };
    IndexPack { id: pid(n), blobs, time: None, size: if with_size { Some(kani::any()) } else { None } }
}

/// IndexCollector::new(mode) with spare capacity in its (empty) vectors, so that `extend` never takes
/// std's Vec growth/realloc path (capacity is not observable; growth is std code, not rustic_core's).
/// Without this a two-element extend costs > 12 GB of SAT memory (measured).
fn roomy_collector(mode: IndexType) -> IndexCollector {
    let mut c = IndexCollector::new(mode);
    for t in [BlobType::Tree, BlobType::Data] {
        c.0[t].packs = Vec::with_capacity(4);
        match &mut c.0[t].entries {
            EntriesVariants::FullEntries(v) => *v = Vec::with_capacity(4),
            EntriesVariants::Ids(v) => *v = Vec::with_capacity(4),
            EntriesVariants::None => {}
        }
    }
    c
}

fn collector_check<const NP: usize>(shape: [usize; NP], ptypes: [BlobType; NP], mode: IndexType) {
    // packs are homogeneous (all blobs of a pack have the pack's type); types concrete per instance
    let mut c = roomy_collector(mode);
    let mut types = [BlobType::Data; NP];
    // plain copies of what is fed in (<= 2 blobs per pack)
    let dummy = Row { id: BlobId::from(vh::mk_id(0)), pack_idx: 0, loc: BlobLocation { offset: 0, length: 0, uncompressed_length: None } };
    let mut rows = [[dummy; 2]; NP];
    let mut sizes = [0u32; NP];
    let mut i = 0;
    while i < NP {
        let t = ptypes[i];
        let p = mk_pack(i as u8 + 1, t, shape[i], true);
        let mut j = 0;
        while j < shape[i] { rows[i][j] = Row { id: p.blobs[j].id, pack_idx: 0, loc: p.blobs[j].location }; j += 1; }
        sizes[i] = p.size.unwrap();
        // empty packs count as data (IndexPack::blob_type documents this)
        types[i] = if shape[i] == 0 { BlobType::Data } else { t };
        // index files are fed one pack list after the other; Option<IndexPack> is the cheapest IntoIterator
        c.extend(Some(p));
        i += 1;
    }
    let m = match mode { IndexType::Full => 0u8, IndexType::DataIds => 1, IndexType::OnlyTrees => 2 };
    collector_type_check::<NP>(&c, BlobType::Tree, &shape, &types, &rows, &sizes, m);
    collector_type_check::<NP>(&c, BlobType::Data, &shape, &types, &rows, &sizes, m);
    kani::cover!(true, "collector checked");
    std::mem::forget(c);
}

fn collector_type_check<const NP: usize>(c: &IndexCollector, tpe: BlobType, shape: &[usize; NP], types: &[BlobType; NP], rows: &[[Row; 2]; NP], sizes: &[u32; NP], m: u8) {
    let tc = &c.0[tpe];
    let mut want_packs = 0usize;
    let mut want_entries = 0usize;
    let mut total = 0u64;
    let mut i = 0;
    while i < NP {
        if types[i] == tpe {
            // pack list in input order, with sizes
            assert!(tc.packs[want_packs].0 == pid(i as u8 + 1) && tc.packs[want_packs].1 == sizes[i]);
            // entries of this pack follow in order with pack_idx = position in the pack list
            let mut j = 0;
            while j < shape[i] {
                let r = &rows[i][j];
                match &tc.entries {
                    EntriesVariants::FullEntries(es) => {
                        let e = &es[want_entries + j];
                        assert!(e.id == r.id && e.pack_idx == want_packs as u32 && e.location == r.loc);
                    }
                    EntriesVariants::Ids(idents) => assert!(idents[want_entries + j] == r.id),
                    EntriesVariants::None => {}
                }
                j += 1;
            }
            want_entries += shape[i];
            want_packs += 1;
            total += u64::from(sizes[i]);
        }
        i += 1;
    }
    assert!(tc.packs.len() == want_packs);
    assert!(tc.total_size == total);
    match &tc.entries {
        EntriesVariants::FullEntries(es) => { assert!(tpe == BlobType::Tree || m == 0); assert!(es.len() == want_entries); }
        EntriesVariants::Ids(idents) => { assert!(tpe == BlobType::Data && m == 1); assert!(idents.len() == want_entries); }
        EntriesVariants::None => assert!(tpe == BlobType::Data && m == 2),
    }
}

macro_rules! collector_instance {
    ($name:ident, $shape:expr, $types:expr, $mode:expr) => {
        #[kani::proof]
        #[kani::unwind(6)]
        pub(crate) fn $name() { collector_check($shape, $types, $mode); }
    };
}
//@ instance: c17_collect_full_1_1 c17_collect_ids_1_1 c17_collect_full_2_1 c17_collect_ids_2_1 c17_collect_trees_0_2 c17_collect_full_1_1_2 c17_collect_ids_2_2 c17_collect_trees_2_1 c17_collect_full_2
//@ harness: c17_collect_full_1_1 c17_collect_ids_1_1 c17_collect_trees_0_2
//@ prop: C17
//@ tier: quick
//@ timeout: 2400
//@ mem: 14
//@ unwindset: ^memcmp#0=34
//@ fsarray: 1024
//@ kernel: IndexCollector::{new, extend}, IndexPack::{blob_type, pack_size}
//@ bound: per instance: concrete number of packs and blobs per pack (1_1 = two packs with one blob each, 0_2 = an empty pack and a pack with 2 blobs, 2 = one pack with 2 blobs), pack types concrete per instance (both orders occur), blob ids symbolic in a 4-element domain, locations and pack sizes symbolic; all three IndexType modes across instances
//@ oracle: after extend the collector holds, per type, the packs of that type in input order with their sizes, total_size == sum of pack sizes (empty packs count as data), and exactly the listed (id, pack index, location) entries in order - ids only in DataIds mode, nothing for data in OnlyTrees mode
//@ assume: packs are homogeneous (every blob of a pack has the pack's type; rustic never writes mixed packs and `check` flags them); the collector's vectors start with spare capacity 4 (no std Vec reallocation inside extend; capacity is unobservable)
//@ outside: marked packs (packs_to_delete) are excluded by the caller new_from_collector, which sits behind a rayon stream (not compilable by Kani)
collector_instance!(c17_collect_full_1_1, [1, 1], [BlobType::Data, BlobType::Tree], IndexType::Full);
collector_instance!(c17_collect_ids_1_1, [1, 1], [BlobType::Data, BlobType::Data], IndexType::DataIds);
collector_instance!(c17_collect_full_2, [2], [BlobType::Data], IndexType::Full);
collector_instance!(c17_collect_trees_0_2, [0, 2], [BlobType::Tree, BlobType::Data], IndexType::OnlyTrees);
//@ harness: c17_collect_full_2 c17_collect_full_2_1 c17_collect_ids_2_1 c17_collect_full_1_1_2 c17_collect_ids_2_2 c17_collect_trees_2_1
//@ prop: C17
//@ tier: experimental
//@ timeout: 2400
//@ mem: 30
//@ unwindset: ^memcmp#0=34
//@ fsarray: 1024
//@ kernel: as c17_collect_full_2_1
//@ bound: as c17_collect_full_2_1, shapes (1,1,2), (2,2), (2,1), (2)
//@ oracle: as c17_collect_full_2_1
//@ assume: packs are homogeneous
collector_instance!(c17_collect_full_1_1_2, [1, 1, 2], [BlobType::Tree, BlobType::Data, BlobType::Tree], IndexType::Full);
collector_instance!(c17_collect_ids_2_2, [2, 2], [BlobType::Tree, BlobType::Data], IndexType::DataIds);
collector_instance!(c17_collect_trees_2_1, [2, 1], [BlobType::Tree, BlobType::Tree], IndexType::OnlyTrees);
collector_instance!(c17_collect_full_2_1, [2, 1], [BlobType::Data, BlobType::Tree], IndexType::Full);
collector_instance!(c17_collect_ids_2_1, [2, 1], [BlobType::Data, BlobType::Data], IndexType::DataIds);

// ---------------------------------------------------------------------------
// PackIndexes::next on entries assumed sorted by pack index
// ---------------------------------------------------------------------------
//@ harness: c17_pack_iteration
//@ prop: C17
//@ tier: quick
//@ timeout: 2400
//@ mem: 10
//@ unwindset: ^memcmp#0=34
//@ fsarray: 1024
//@ kernel: PackIndexes::next
//@ bound: tree index: 2 packs, 2 entries; data index: 2 packs, 3 entries; pack_idx symbolic, assumed sorted by pack_idx (post-condition of the trusted sort in Index::into_iter); ids/locations symbolic
//@ oracle: iteration yields every pack exactly once (trees first, then data, in pack order) with exactly the entries whose pack_idx names it, as IndexBlobs of the right type; then None
//@ assume: entries sorted by pack_idx (trusted rayon sort in into_iter)
#[kani::proof]
#[kani::unwind(8)]
pub(crate) fn c17_pack_iteration() {
    fn rows_by_pack<const N: usize>(np: u32) -> [Row; N] {
        let rows: [Row; N] = core::array::from_fn(|_| { let pi: u32 = kani::any(); kani::assume(pi < np); Row { id: any_bid(), pack_idx: pi, loc: any_loc() } });
        let mut i = 0;
        while i + 1 < N { kani::assume(rows[i].pack_idx <= rows[i + 1].pack_idx); i += 1; }
        rows
    }
    let t = rows_by_pack::<2>(2);
    let d = rows_by_pack::<3>(2);
    let packs_t = [pid(20), pid(21)];
    let packs_d = [pid(10), pid(11)];
    let idx = Index(enum_map::enum_map! {
        BlobType::Tree => TypeIndex { packs: vec![packs_t[0], packs_t[1]], entries: full(&t), total_size: 0 },
        BlobType::Data => TypeIndex { packs: vec![packs_d[0], packs_d[1]], entries: full(&d), total_size: 0 },
    });
    let mut it = PackIndexes { c: idx, tpe: BlobType::Tree, idx: BlobTypeMap::default() };
    let mut k = 0usize;
    while k < 4 {
        let p = it.next().unwrap();
        let (tpe, pi, want_id) = if k < 2 { (BlobType::Tree, k as u32, packs_t[k]) } else { (BlobType::Data, (k - 2) as u32, packs_d[k - 2]) };
        assert!(p.id == want_id);
        let mut n = 0usize;
        let mut i = 0;
        if tpe == BlobType::Tree {
            while i < 2 { if t[i].pack_idx == pi { assert!(p.blobs[n] == IndexBlob { id: t[i].id, tpe, location: t[i].loc }); n += 1; } i += 1; }
        } else {
            while i < 3 { if d[i].pack_idx == pi { assert!(p.blobs[n] == IndexBlob { id: d[i].id, tpe, location: d[i].loc }); n += 1; } i += 1; }
        }
        assert!(p.blobs.len() == n);
        kani::cover!(n == 2, "a pack with two blobs came back");
        kani::cover!(n == 0, "an empty pack came back");
        std::mem::forget(p);
        k += 1;
    }
    assert!(it.next().is_none());
    std::mem::forget(it);
}

// ---------------------------------------------------------------------------
// end to end: collector -> into_index (real code; rayon's parallel sort replaced by a
// sequential insertion sort with the same contract) -> lookup / into_iter
// ---------------------------------------------------------------------------
/// Sequential stand-in for rayon::slice::ParallelSliceMut with the same trait shape (Kani accepts
/// trait-method stubs only from a trait of identical layout).  Contract kept: "sorts the slice by
/// the given key / comparator".  What stays checked is that the real code *calls* the sort, on the
/// right vector, with the right key.
pub(crate) trait SeqSliceMut<T: Send> {
    fn as_parallel_slice_mut(&mut self) -> &mut [T];
    fn par_sort_unstable(&mut self) where T: Ord {
        let s = self.as_parallel_slice_mut();
        let n = s.len();
        let mut i = 1;
        while i < n { let mut j = i; while j > 0 && s[j - 1] > s[j] { s.swap(j - 1, j); j -= 1; } i += 1; }
    }
    fn par_sort_unstable_by<F>(&mut self, compare: F) where F: Fn(&T, &T) -> std::cmp::Ordering + Sync {
        let s = self.as_parallel_slice_mut();
        let n = s.len();
        let mut i = 1;
        while i < n { let mut j = i; while j > 0 && compare(&s[j - 1], &s[j]) == std::cmp::Ordering::Greater { s.swap(j - 1, j); j -= 1; } i += 1; }
    }
    fn par_sort_unstable_by_key<K, F>(&mut self, f: F) where K: Ord, F: Fn(&T) -> K + Sync {
        let s = self.as_parallel_slice_mut();
        let n = s.len();
        let mut i = 1;
        while i < n { let mut j = i; while j > 0 && f(&s[j - 1]) > f(&s[j]) { s.swap(j - 1, j); j -= 1; } i += 1; }
    }
}
impl<T: Send> SeqSliceMut<T> for [T] {
    fn as_parallel_slice_mut(&mut self) -> &mut [T] { self }
}

fn e2e_check<const NP: usize>(shape: [usize; NP], ptypes: [BlobType; NP], mode: IndexType) {
    let mut c = roomy_collector(mode);
    let dummy = Row { id: BlobId::from(vh::mk_id(0)), pack_idx: 0, loc: BlobLocation { offset: 0, length: 0, uncompressed_length: None } };
    let mut rows = [[dummy; 2]; NP];
    let mut sizes = [0u32; NP];
    let mut i = 0;
    while i < NP {
        let p = mk_pack(i as u8 + 1, ptypes[i], shape[i], true);
        let mut j = 0;
        while j < shape[i] { rows[i][j] = Row { id: p.blobs[j].id, pack_idx: 0, loc: p.blobs[j].location }; j += 1; }
        sizes[i] = p.size.unwrap();
        c.extend(Some(p));
        i += 1;
    }
    let idx = c.into_index();
    let m = match mode { IndexType::Full => 0u8, IndexType::DataIds => 1, IndexType::OnlyTrees => 2 };
    let q = any_bid();
    if kani::any() { e2e_query::<NP>(&idx, &rows, &sizes, shape, ptypes, m, q, BlobType::Tree); } else { e2e_query::<NP>(&idx, &rows, &sizes, shape, ptypes, m, q, BlobType::Data); }
    std::mem::forget(idx);
}

fn e2e_query<const NP: usize>(idx: &Index, rows: &[[Row; 2]; NP], sizes: &[u32; NP], shape: [usize; NP], ptypes: [BlobType; NP], m: u8, q: BlobId, tpe: BlobType) {
    let mut listed = false;
    let mut total = 0u64;
    let mut i = 0;
    while i < NP {
        let ptype = if shape[i] == 0 { BlobType::Data } else { ptypes[i] };
        if ptype == tpe {
            let mut j = 0;
            while j < shape[i] { if rows[i][j].id == q { listed = true; } j += 1; }
            total += u64::from(sizes[i]);
        }
        i += 1;
    }
    let retains_presence = tpe == BlobType::Tree || m != 2;
    let retains_location = tpe == BlobType::Tree || m == 0;
    assert!(idx.has(tpe, &q) == (listed && retains_presence));
    assert!(idx.total_size(tpe) == total);
    match idx.get_id(tpe, &q) {
        None => assert!(!(listed && retains_location)),
        Some(e) => {
            assert!(listed && retains_location);
            let mut ok = false;
            let mut i = 0;
            while i < NP {
                let ptype = if shape[i] == 0 { BlobType::Data } else { ptypes[i] };
                let mut j = 0;
                while j < shape[i] { if ptype == tpe && rows[i][j].id == q && pid(i as u8 + 1) == e.pack && rows[i][j].loc == e.location { ok = true; } j += 1; }
                i += 1;
            }
            assert!(ok);
            kani::cover!(true, "lookup returned a listing");
        }
    }
    kani::cover!(listed && retains_presence, "present");
    kani::cover!(!listed, "absent");
}

macro_rules! e2e_instance {
    ($name:ident, $shape:expr, $types:expr, $mode:expr) => {
        #[kani::proof]
        #[kani::unwind(5)]
        #[kani::stub(rayon::slice::ParallelSliceMut::par_sort_unstable_by_key, SeqSliceMut::par_sort_unstable_by_key)]
        #[kani::stub(rayon::slice::ParallelSliceMut::par_sort_unstable, SeqSliceMut::par_sort_unstable)]
        pub(crate) fn $name() { e2e_check($shape, $types, $mode); }
    };
}
//@ instance: c17_e2e_full_2 c17_e2e_full_2_1 c17_e2e_ids_2_1 c17_e2e_trees_1_2 c17_e2e_full_2_2
//@ harness: c17_e2e_full_2 c17_e2e_full_2_1
//@ prop: C17
//@ tier: experimental
//@ timeout: 3000
//@ mem: 30
//@ unwindset: ^memcmp#0=34
//@ fsarray: 1024
//@ kernel: IndexCollector::{new,extend,into_index} -> Index::{has,get_id,total_size}; the sort call sites inside into_index
//@ bound: per instance: concrete pack/blob counts and pack types ((2 data), (2 data, 1 tree)), ids symbolic in a 4-element domain, locations/sizes symbolic; symbolic (type,id) query; loops unwound 5, memcmp 34
//@ oracle: through the real collector and the real into_index: has <=> listed (for what the mode retains), get_id returns one listing of that (type,id), total_size == sum of listed pack sizes per type
//@ stub: rayon::slice::ParallelSliceMut::{par_sort_unstable, par_sort_unstable_by_key} -> sequential insertion sort with the same contract (Kani cannot compile rayon); rayon's sort implementation itself is trusted
//@ assume: packs are homogeneous
e2e_instance!(c17_e2e_full_2, [2], [BlobType::Data], IndexType::Full);
e2e_instance!(c17_e2e_full_2_1, [2, 1], [BlobType::Data, BlobType::Tree], IndexType::Full);
//@ harness: c17_e2e_ids_2_1 c17_e2e_trees_1_2 c17_e2e_full_2_2
//@ prop: C17
//@ tier: experimental
//@ timeout: 3000
//@ mem: 16
//@ unwindset: ^memcmp#0=34
//@ fsarray: 1024
//@ kernel: as c17_e2e_full_2
//@ bound: as c17_e2e_full_2, shapes (2,1) ids-only, (1,2) trees-only, (2,2) full
//@ oracle: as c17_e2e_full_2
//@ stub: rayon parallel sorts -> sequential insertion sort (same contract)
//@ assume: packs are homogeneous
e2e_instance!(c17_e2e_ids_2_1, [2, 1], [BlobType::Data, BlobType::Data], IndexType::DataIds);
e2e_instance!(c17_e2e_trees_1_2, [1, 2], [BlobType::Data, BlobType::Tree], IndexType::OnlyTrees);
e2e_instance!(c17_e2e_full_2_2, [2, 2], [BlobType::Tree, BlobType::Tree], IndexType::Full);

