#![allow(warnings, clippy::all, clippy::pedantic, clippy::nursery)]
//@ module: vfs
use super::*;
use crate::error::verif_harness as vh;

fn startpoints_check<const N: usize>() {
    let sizes: [usize; N] = kani::any();
    let mut k = 0;
    // blob plaintext sizes: at least 1 byte, at most 2^40
    while k < N { kani::assume(sizes[k] >= 1 && sizes[k] <= (1usize << 40)); k += 1; }
    let sp = ContentStartpoints::from_sizes(sizes.iter().map(|s| Ok(*s))).unwrap();
    let offset: usize = kani::any();
    let (i, off) = sp.compute_start(offset);
    let mut total = 0usize;
    let mut start = 0usize;
    let mut k = 0;
    while k < N { if k < i { start += sizes[k]; } total += sizes[k]; k += 1; }
    if N == 0 {
        assert!(i == 0 && off == 0);
    } else if offset < total {
        // the byte at `offset` is byte `off` of blob `i`
        assert!(i < N);
        assert!(start + off == offset);
        assert!(off < sizes[i]);
    } else {
        // reading at or beyond EOF must yield nothing in read_at: either no blob is selected,
        // or the in-blob offset is at/after the end of the last blob
        assert!(i >= N || (i == N - 1 && off >= sizes[i]));
    }
    // the slicing loop of OpenFile::read_at (mirrored; the blob source is the only substitution)
    let mut length: usize = kani::any();
    kani::assume(length <= 8);
    let want = if offset >= total { 0 } else { (total - offset).min(length) };
    let (mut bi, mut boff) = (i, off);
    let mut got = 0usize;
    let mut pos_ok = true;
    let mut steps = 0;
    while length > 0 && bi < N && steps < N + 1 {
        let dlen = sizes[bi];
        if boff > dlen { break; }
        let to_copy = (dlen - boff).min(length);
        // bytes copied are file bytes [cursor, cursor+to_copy)
        let mut s = 0usize; let mut k = 0; while k < N { if k < bi { s += sizes[k]; } k += 1; }
        if s + boff != offset + got { pos_ok = false; }
        got += to_copy;
        boff = 0;
        length -= to_copy;
        bi += 1;
        steps += 1;
    }
    assert!(pos_ok);
    assert!(got == want);
    // witnesses (trivially true for the instances whose shape cannot show them: the empty file, a single blob)
    kani::cover!(N == 0 || (offset < total && i == N - 1 && off == sizes[N - 1] - 1), "last byte of the file");
    kani::cover!(N < 2 || (offset < total && i == 1 && off == 0), "first byte of the second blob");
    kani::cover!(N == 0 || offset == total, "read exactly at EOF");
    kani::cover!(true, "checked");
    std::mem::forget(sp);
}

//@ harness: c01_ranged_read_startpoints_3
//@ prop: C01
//@ tier: quick
//@ timeout: 900
//@ mem: 10
//@ kernel: vfs::ContentStartpoints::{from_sizes, compute_start}; the slicing loop of OpenFile::read_at mirrored over blob sizes
//@ bound: 3 content blobs with symbolic plaintext sizes 1..=2^40, any usize offset, read length 0..=8; unwind 8
//@ oracle: compute_start returns (i,o) with sum(size_k, k<i) + o == offset and o < size_i for offset < file size, otherwise a position from which nothing is read; the read loop then yields exactly min(length, size - offset) bytes, each taken from the right file position
//@ assume: blob sizes are >= 1 (no empty chunks, C06) and their sum fits usize (files < 2^42 bytes here)
//@ outside: fetching/decrypting the blobs (repo.get_blob_cached: index lookup C17 + blob framing c01_blob_framing_roundtrip_*), the read loop is mirrored (4 lines) because OpenFile::read_at needs a Repository
#[kani::proof]
#[kani::unwind(8)]
#[kani::stub(std::backtrace::Backtrace::capture, crate::error::verif_harness::stub_backtrace_capture)]
#[kani::stub(crate::error::RusticError::new, crate::error::verif_harness::stub_rustic_new)]
#[kani::stub(crate::error::RusticError::attach_context, crate::error::verif_harness::stub_attach_context)]
#[kani::stub(crate::error::RusticError::attach_source, crate::error::verif_harness::stub_attach_source)]
pub(crate) fn c01_ranged_read_startpoints_3() { startpoints_check::<3>(); }

//@ harness: c01_ranged_read_startpoints_0 c01_ranged_read_startpoints_1 c01_ranged_read_startpoints_4
//@ prop: C01
//@ tier: thorough
//@ timeout: 1800
//@ mem: 12
//@ kernel: as c01_ranged_read_startpoints_3
//@ bound: as c01_ranged_read_startpoints_3 with 0, 1 and 4 content blobs
//@ oracle: as c01_ranged_read_startpoints_3
//@ assume: blob sizes >= 1
#[kani::proof]
#[kani::unwind(8)]
#[kani::stub(std::backtrace::Backtrace::capture, crate::error::verif_harness::stub_backtrace_capture)]
#[kani::stub(crate::error::RusticError::new, crate::error::verif_harness::stub_rustic_new)]
#[kani::stub(crate::error::RusticError::attach_context, crate::error::verif_harness::stub_attach_context)]
#[kani::stub(crate::error::RusticError::attach_source, crate::error::verif_harness::stub_attach_source)]
pub(crate) fn c01_ranged_read_startpoints_0() { startpoints_check::<0>(); }
#[kani::proof]
#[kani::unwind(8)]
#[kani::stub(std::backtrace::Backtrace::capture, crate::error::verif_harness::stub_backtrace_capture)]
#[kani::stub(crate::error::RusticError::new, crate::error::verif_harness::stub_rustic_new)]
#[kani::stub(crate::error::RusticError::attach_context, crate::error::verif_harness::stub_attach_context)]
#[kani::stub(crate::error::RusticError::attach_source, crate::error::verif_harness::stub_attach_source)]
pub(crate) fn c01_ranged_read_startpoints_1() { startpoints_check::<1>(); }
#[kani::proof]
#[kani::unwind(8)]
#[kani::stub(std::backtrace::Backtrace::capture, crate::error::verif_harness::stub_backtrace_capture)]
#[kani::stub(crate::error::RusticError::new, crate::error::verif_harness::stub_rustic_new)]
#[kani::stub(crate::error::RusticError::attach_context, crate::error::verif_harness::stub_attach_context)]
#[kani::stub(crate::error::RusticError::attach_source, crate::error::verif_harness::stub_attach_source)]
pub(crate) fn c01_ranged_read_startpoints_4() { startpoints_check::<4>(); }
