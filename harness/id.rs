#![allow(warnings, clippy::all, clippy::pedantic, clippy::nursery)]
//@ module: id
use super::*;

/// first byte of an id (harness ids are `b || 0^31`)
pub(crate) fn id0(id: &Id) -> u8 { id.0[0] }
pub(crate) fn bytes(id: &Id) -> &[u8; 32] { &id.0 }
