#![allow(warnings, clippy::all, clippy::pedantic, clippy::nursery)]
//@ module: archiver::parent
use super::*;
use crate::error::verif_harness as vh;
use crate::error::verif_harness::{ModelKey, NullBe};
use crate::backend::decrypt::DecryptBackend;
use crate::backend::node::{Metadata, NodeType};
use crate::backend::WriteBackend;
use crate::blob::{BlobId, BlobType, DataId};
use crate::index::{IndexEntry, ReadIndex};
use jiff::Timestamp;
use std::borrow::Cow;
use std::path::PathBuf;
use std::sync::Arc;

/// names in this harness contain no escapes; Node::name()'s unescape_filename (word-at-a-time memchr over a heap
/// string) is what made the design-phase probe time out
fn stub_name<'a>(n: &'a Node) -> Cow<'a, OsStr> { Cow::Borrowed(OsStr::new(&n.name)) }

/// index mock: presence of a data blob is bit `id[0]` of `bits`
#[derive(Clone, Debug)]
struct BitIndex { bits: u8 }
impl ReadIndex for BitIndex {
    fn get_id(&self, _tpe: BlobType, _id: &BlobId) -> Option<IndexEntry> { None }
    fn total_size(&self, _tpe: BlobType) -> u64 { 0 }
    fn has(&self, tpe: BlobType, id: &BlobId) -> bool {
        let b = crate::id::verif_harness::id0(&crate::id::Id::from(**id));
        tpe == BlobType::Data && b < 8 && (self.bits >> b) & 1 == 1
    }
}
impl ReadGlobalIndex for BitIndex {}

fn any_ts() -> Option<Timestamp> {
    match kani::any::<u8>() % 3 { 0 => None, 1 => Some(Timestamp::UNIX_EPOCH), _ => Some(Timestamp::MAX) }
}
fn any_meta() -> Metadata {
    let mut m = Metadata::default();
    m.size = kani::any();
    m.inode = kani::any();
    m.mtime = any_ts();
    m.ctime = any_ts();
    m
}
fn file_node(name: &str, meta: Metadata, content: Option<Vec<DataId>>) -> Node {
    Node { name: name.to_string(), node_type: NodeType::File, meta, content, subtree: None }
}
fn did(b: u8) -> DataId { DataId::from(vh::mk_id(b)) }

//@ harness: c11_parent_match_file
//@ prop: C11
//@ tier: quick
//@ timeout: 1500
//@ mem: 16
//@ unwindset: ^memcmp#0=34
//@ kernel: Parent::{process (file branch), is_parent, p_node}, ParentResult::map
//@ bound: one parent tree with two file nodes "a" and "c" (each: symbolic size, inode, mtime/ctime in {none, epoch, max}, one content id whose index presence is symbolic), cursor at 0; a current file node named "a", "b", "c" or "d" (symbolic choice) with symbolic metadata; ignore_ctime / ignore_inode symbolic; one call of process()
//@ oracle: Matched => the parent node has the same name and type, equal size and mtime and (unless ignored) compatible ctime, every content id of it is in the index, and the node's content is the parent's; a same-named parent node with different size or mtime is never Matched; a name the parent tree does not have (at or after the cursor) gives NotFound; a parent whose blobs are partly missing in the index is not Matched (file is re-read)
//@ stub: Node::name -> the stored name without unescaping (names here contain no escapes); Backtrace::capture
//@ outside: directories (set_dir loads subtrees from the backend), several parents, parent selection, tree equality of the two backups end to end (archiver pipeline), escaped names
#[kani::proof]
#[kani::unwind(6)]
#[kani::stub(std::backtrace::Backtrace::capture, crate::error::verif_harness::stub_backtrace_capture)]
#[kani::stub(crate::backend::node::Node::name, stub_name)]
pub(crate) fn c11_parent_match_file() { match_steps::<1>(); }

//@ harness: c11_parent_match_two_files
//@ prop: C11
//@ tier: thorough
//@ timeout: 3000
//@ mem: 20
//@ unwindset: ^memcmp#0=34
//@ kernel: as c11_parent_match_file, plus the cursor that Parent::p_node keeps between calls
//@ bound: as c11_parent_match_file, followed by a second current file node with a later name ("b".."d") processed against the same Parent (cursor state left by the first call)
//@ oracle: as c11_parent_match_file for both calls
//@ stub: as c11_parent_match_file
//@ outside: as c11_parent_match_file
#[kani::proof]
#[kani::unwind(6)]
#[kani::stub(std::backtrace::Backtrace::capture, crate::error::verif_harness::stub_backtrace_capture)]
#[kani::stub(crate::backend::node::Node::name, stub_name)]
pub(crate) fn c11_parent_match_two_files() { match_steps::<2>(); }

fn match_steps<const STEPS: usize>() {
    let pa = any_meta();
    let pc = any_meta();
    let bits: u8 = kani::any();
    let index = BitIndex { bits };
    let nodes = vec![file_node("a", pa.clone(), Some(vec![did(1)])), file_node("c", pc.clone(), Some(vec![did(2)]))];
    let ignore_ctime: bool = kani::any();
    let ignore_inode: bool = kani::any();
    let mut parent = Parent { tree_ids: Vec::new(), trees: vec![(Tree { nodes }, 0)], stack: Vec::new(), ignore_ctime, ignore_inode };
    let be = DecryptBackend::new(Arc::new(NullBe::new()) as Arc<dyn WriteBackend>, ModelKey);
    let first: u8 = kani::any();
    kani::assume(first < 4);
    one_file(&mut parent, &be, &index, first, &pa, &pc, bits, ignore_ctime);
    if STEPS == 2 {
        // files arrive in name order
        let second: u8 = kani::any();
        kani::assume(second > first && second < 4);
        one_file(&mut parent, &be, &index, second, &pa, &pc, bits, ignore_ctime);
    }
    std::mem::forget(parent); std::mem::forget(be);
}

fn one_file(parent: &mut Parent, be: &DecryptBackend<ModelKey>, index: &BitIndex, which: u8, pa: &Metadata, pc: &Metadata, bits: u8, ignore_ctime: bool) {
    let cur = any_meta();
    let name = match which { 0 => "a", 1 => "b", 2 => "c", _ => "d" };
    let node = file_node(name, cur.clone(), None);
    let item = TreeType::Other((PathBuf::new(), node, ()));
    let r = parent.process(be, index, item);
    let (out_node, res) = match r { Ok(TreeType::Other((_, n, ((), res)))) => (n, res), _ => { assert!(false, "process failed"); return; } };
    let p_meta = if which == 0 { Some((pa, 1u8)) } else if which == 2 { Some((pc, 2u8)) } else { None };
    match (&res, p_meta) {
        (ParentResult::Matched(()), Some((p, idb))) => {
            assert!(p.size == cur.size && p.mtime == cur.mtime);
            assert!(ignore_ctime || p.ctime.is_none() || cur.ctime.is_none() || p.ctime == cur.ctime);
            assert!((bits >> idb) & 1 == 1);
            // (compared element-wise: building a Vec for the comparison gave a spurious, non-replayable counterexample)
            assert!(out_node.content.as_ref().map_or(false, |c| c.len() == 1 && crate::id::verif_harness::id0(&crate::id::Id::from(*c[0])) == idb));
            witness_reused();
        }
        (ParentResult::Matched(()), None) => assert!(false, "matched a name the parent does not have"),
        (ParentResult::NotFound, Some((p, idb))) => {
            // found by name: NotFound is only reported when blobs are missing (re-read)
            assert!((bits >> idb) & 1 == 0);
            assert!(out_node.content.is_none());
            witness_reread();
        }
        (ParentResult::NotFound, None) => { assert!(out_node.content.is_none()); }
        (ParentResult::NotMatched, Some((p, _))) => {
            assert!(out_node.content.is_none());
            // completeness where the statement is unambiguous: identical size, mtime, ctime and inode must match
            assert!(!(p.size == cur.size && p.mtime == cur.mtime && p.ctime == cur.ctime && p.inode == cur.inode));
            witness_changed(p.size != cur.size);
        }
        (ParentResult::NotMatched, None) => assert!(false, "NotMatched for a name the parent does not have"),
    }
    std::mem::forget(out_node);
}
#[inline(never)] fn witness_reused() { kani::cover!(true, "file reused from the parent"); }
#[inline(never)] fn witness_reread() { kani::cover!(true, "parent blobs missing: file is read again"); }
#[inline(never)] fn witness_changed(c: bool) { kani::cover!(c, "changed size is detected"); }
