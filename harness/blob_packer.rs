#![allow(warnings, clippy::all, clippy::pedantic, clippy::nursery)]
//@ module: blob::packer
use super::*;
use crate::error::verif_harness as vh;
use crate::blob::BlobLocation;

//@ harness: c18_pack_size_no_overflow
//@ prop: C18
//@ tier: quick
//@ timeout: 300
//@ kernel: PackSizer::pack_size, integer_sqrt
//@ bound: all six PackSizer fields fully symbolic (u32/u64); integer_sqrt loop unwind 34 (32 iterations for u64)
//@ oracle: no arithmetic overflow / panic; result <= MAX_SIZE
#[kani::proof]
#[kani::unwind(34)]
pub(crate) fn c18_pack_size_no_overflow() {
    let ps = PackSizer {
        default_size: kani::any(),
        grow_factor: kani::any(),
        size_limit: kani::any(),
        current_size: kani::any(),
        min_packsize_tolerate_percent: kani::any(),
        max_packsize_tolerate_percent: kani::any(),
    };
    let s = ps.pack_size();
    kani::cover!(true, "reached");
    assert!(s <= constants::MAX_SIZE);
}

//@ harness: c18_pack_sizer_predicates
//@ prop: C18
//@ tier: quick
//@ timeout: 900
//@ kernel: PackSizer::{from_config, pack_size, size_ok, is_too_small, is_too_large, add_size}, ConfigFile::{packsize, packsize_ok_percents}
//@ bound: all pack-size related ConfigFile fields symbolic (Option<u32> each), blob type symbolic, repository size any u64 <= 2^63, candidate pack size any u32, added size any u32, tolerance percentages < 4096; integer_sqrt unwind 34
//@ oracle: no arithmetic overflow / panic in any predicate; target size <= configured size limit and <= MAX_SIZE
#[kani::proof]
#[kani::unwind(34)]
pub(crate) fn c18_pack_sizer_predicates() {
    let mut c = crate::repofile::ConfigFile::default();
    fn o() -> Option<u32> { if kani::any() { Some(kani::any()) } else { None } }
    c.treepack_size = o(); c.treepack_growfactor = o(); c.treepack_size_limit = o();
    c.datapack_size = o(); c.datapack_growfactor = o(); c.datapack_size_limit = o();
    c.min_packsize_tolerate_percent = o(); c.max_packsize_tolerate_percent = o();
    // tolerances up to 4095 % (12 bits): full 32x32-bit symbolic products do not finish in the SAT back end
    kani::assume(c.min_packsize_tolerate_percent.map_or(true, |p| p < 4096) && c.max_packsize_tolerate_percent.map_or(true, |p| p < 4096));
    let bt = if kani::any() { BlobType::Tree } else { BlobType::Data };
    let cur: u64 = kani::any();
    kani::assume(cur <= 1 << 63);
    let mut ps = PackSizer::from_config(&c, bt, cur);
    let target = ps.pack_size();
    let (_, _, lim) = c.packsize(bt);
    assert!(target <= lim && target <= constants::MAX_SIZE);
    let cand: u32 = kani::any();
    let (small, large) = (ps.is_too_small(cand), ps.is_too_large(cand));
    ps.add_size(kani::any());
    let _ = ps.pack_size();
    kani::cover!(small, "a candidate is too small");
    kani::cover!(large, "a candidate is too large");
}

fn bid(b: u8) -> BlobId { BlobId::from(vh::mk_id(b)) }

//@ harness: c08_packer_add_raw
//@ prop: C08 C07
//@ tier: quick
//@ timeout: 900
//@ mem: 12
//@ kernel: BasicPacker::{new, add_raw, write_data, has}, IndexPack::add
//@ bound: two add_raw calls with blobs of 3 and 2 symbolic bytes (leaked static Bytes), blob ids symbolic in a 3-element domain (so "already in this pack" occurs), symbolic uncompressed length; unwind 34
//@ oracle: the index lists the blobs in insertion order at contiguous offsets from 0 with the data's lengths, ids, type and recorded uncompressed length; size and count follow; an id already in the open pack adds nothing
//@ stub: SystemTime::now; Backtrace::capture
//@ assume: blobs are non-empty
//@ outside: write_header / take_data accounting (c08_packer_header_and_take, experimental: SAT memory > 16 GB), the binrw byte encoding of header entries, which bytes the threaded Actor hashes and writes, repair_index
#[kani::proof]
#[kani::unwind(34)]
#[kani::stub(std::time::SystemTime::now, crate::error::verif_harness::stub_systime_now)]
#[kani::stub(std::backtrace::Backtrace::capture, crate::error::verif_harness::stub_backtrace_capture)]
pub(crate) fn c08_packer_add_raw() {
    let mut p = BasicPacker::new(BlobType::Data, PackSizer::fixed(kani::any()));
    let d0: &'static mut [u8; 3] = Box::leak(Box::new(kani::any()));
    let d1: &'static mut [u8; 2] = Box::leak(Box::new(kani::any()));
    let (i0, i1): (u8, u8) = (kani::any(), kani::any());
    kani::assume(i0 < 3 && i1 < 3);
    let ul: u32 = kani::any();
    p.add_raw(Bytes::from_static(&*d0), &bid(i0), 3, NonZeroU32::new(ul)).unwrap();
    p.add_raw(Bytes::from_static(&*d1), &bid(i1), 2, None).unwrap();
    let blobs = &p.index.blobs;
    assert!(blobs[0].location.offset == 0 && blobs[0].location.length == 3);
    assert!(blobs[0].id == bid(i0) && blobs[0].tpe == BlobType::Data);
    assert!(blobs[0].location.uncompressed_length == NonZeroU32::new(ul));
    if i0 == i1 {
        // an id already in the open pack adds nothing
        assert!(blobs.len() == 1 && p.size == 3 && p.count == 1);
    } else {
        assert!(blobs.len() == 2 && p.size == 5 && p.count == 2);
        assert!(blobs[1].location.offset == 3 && blobs[1].location.length == 2);
        assert!(blobs[1].id == bid(i1));
        assert!(blobs[1].location.uncompressed_length.is_none());
    }
    kani::cover!(i0 == i1, "second blob already in the open pack");
    kani::cover!(i0 != i1, "two blobs at contiguous offsets");
    std::mem::forget(p);
}

//@ harness: c08_packer_second_pack
//@ prop: C08 C07
//@ tier: quick
//@ timeout: 900
//@ mem: 12
//@ kernel: BasicPacker::{new, add_raw, write_data, has, take_data}, IndexPack::{add, pack_size}, PackHeaderRef::{from_index_pack, pack_size}, PackSizer::add_size
//@ bound: one packer instance across a pack boundary: add_raw (3 symbolic bytes), take_data (pack flushed), add_raw (2 symbolic bytes); ids symbolic in a 3-element domain (the second blob may repeat the id of the flushed one: it must be stored again, the open pack no longer has it); symbolic uncompressed lengths; unwind 34
//@ oracle: take_data hands back exactly the flushed pack (one part of 3 bytes; index: the blob at offset 0, length 3) and leaves an empty packer (size 0, count 0, empty index and file); the next pack's first blob is indexed at offset 0 with its own length - offsets never carry over from an earlier pack of the same packer (the trailer stores lengths only, so repair-index recomputes offsets from 0)
//@ stub: SystemTime::now; Backtrace::capture
//@ assume: blobs are non-empty
//@ outside: write_header accounting (c08_packer_header_and_take, experimental), the binrw byte encoding of header entries, the threaded Actor, repair_index
#[kani::proof]
#[kani::unwind(34)]
#[kani::stub(std::time::SystemTime::now, crate::error::verif_harness::stub_systime_now)]
#[kani::stub(std::backtrace::Backtrace::capture, crate::error::verif_harness::stub_backtrace_capture)]
pub(crate) fn c08_packer_second_pack() {
    let mut p = BasicPacker::new(BlobType::Data, PackSizer::fixed(kani::any()));
    let d0: &'static mut [u8; 3] = Box::leak(Box::new(kani::any()));
    let d1: &'static mut [u8; 2] = Box::leak(Box::new(kani::any()));
    let (i0, i1): (u8, u8) = (kani::any(), kani::any());
    kani::assume(i0 < 3 && i1 < 3);
    let (u0, u1): (u32, u32) = (kani::any(), kani::any());
    p.add_raw(Bytes::from_static(&*d0), &bid(i0), 3, NonZeroU32::new(u0)).unwrap();
    let (file, index) = p.take_data();
    assert!(file.slice().len() == 1 && file.slice()[0].len() == 3 && file.size() == 3);
    assert!(index.blobs.len() == 1 && index.blobs[0].id == bid(i0));
    assert!(index.blobs[0].location == BlobLocation { offset: 0, length: 3, uncompressed_length: NonZeroU32::new(u0) });
    assert!(p.size == 0 && p.count == 0 && p.index.blobs.is_empty() && p.file.slice().is_empty());
    assert!(!p.has(&bid(i0)));
    p.add_raw(Bytes::from_static(&*d1), &bid(i1), 2, NonZeroU32::new(u1)).unwrap();
    let blobs = &p.index.blobs;
    assert!(blobs.len() == 1 && blobs[0].id == bid(i1) && blobs[0].tpe == BlobType::Data);
    assert!(blobs[0].location == BlobLocation { offset: 0, length: 2, uncompressed_length: NonZeroU32::new(u1) });
    assert!(p.size == 2 && p.count == 1);
    assert!(p.file.slice().len() == 1 && p.file.slice()[0].len() == 2);
    kani::cover!(i0 == i1, "the flushed blob's id is added again to the next pack");
    kani::cover!(i0 != i1, "a different blob opens the next pack");
    std::mem::forget(file); std::mem::forget(index); std::mem::forget(p);
}

//@ harness: c08_packer_header_and_take
//@ prop: C08 C07
//@ tier: experimental
//@ timeout: 1200
//@ mem: 12
//@ kernel: BasicPacker::{new, add_raw, write_data, has, is_empty, write_header, take_data}, IndexPack::{add, pack_size}, PackHeaderRef::{from_index_pack, size, pack_size}, HeaderEntry::{from_blob, length}, PackSizer::add_size
//@ bound: two add_raw calls with blobs of 3 and 2 symbolic bytes (leaked static Bytes), blob ids symbolic in a 3-element domain (so "already in this pack" occurs), symbolic uncompressed lengths; then write_header with a header of the computed size (36 or 73/77/81 bytes, symbolic content) and take_data; unwind 36
//@ oracle: the index lists the blobs in insertion order at contiguous offsets from 0 with the data's lengths; the pack bytes at [offset, offset+length) are exactly the data added; an id already in the open pack adds nothing; write_header appends the header and then the 4 bytes the length encoder returns; IndexPack::pack_size() == number of bytes in the file when the header has PackHeaderRef::size() bytes; take_data resets size and count and returns exactly file and index
//@ stub: PackHeaderLength::to_binary -> arbitrary 4 bytes (binrw out of reach, DESIGN C08); SystemTime::now; Backtrace::capture; fmt::format; ToString::to_string -> empty string (error context values only); RusticError text
//@ assume: blobs are non-empty
//@ outside: the binrw byte encoding of header entries and of the length field; which bytes the threaded Actor hashes and writes; repair_index
#[kani::proof]
#[kani::unwind(36)]
#[kani::stub(crate::error::RusticError::new, crate::error::verif_harness::stub_rustic_new)]
#[kani::stub(crate::error::RusticError::attach_context, crate::error::verif_harness::stub_attach_context)]
#[kani::stub(crate::error::RusticError::attach_source, crate::error::verif_harness::stub_attach_source)]
#[kani::stub(std::time::SystemTime::now, crate::error::verif_harness::stub_systime_now)]
#[kani::stub(std::backtrace::Backtrace::capture, crate::error::verif_harness::stub_backtrace_capture)]
#[kani::stub(crate::error::RusticError::new, crate::error::verif_harness::stub_rustic_new)]
#[kani::stub(crate::error::RusticError::attach_context, crate::error::verif_harness::stub_attach_context)]
#[kani::stub(crate::error::RusticError::attach_source, crate::error::verif_harness::stub_attach_source)]
#[kani::stub(alloc::fmt::format, crate::error::verif_harness::stub_format)]
#[kani::stub(crate::repofile::packfile::PackHeaderLength::to_binary, crate::repofile::packfile::verif_harness::stub_len_to_binary)]
#[kani::stub(alloc::string::ToString::to_string, crate::error::verif_harness::ToStringModel::to_string)]
pub(crate) fn c08_packer_header_and_take() {
    let mut p = BasicPacker::new(if kani::any() { BlobType::Data } else { BlobType::Tree }, PackSizer::fixed(kani::any()));
    assert!(p.is_empty());
    let d0: &'static mut [u8; 3] = Box::leak(Box::new(kani::any()));
    let d1: &'static mut [u8; 2] = Box::leak(Box::new(kani::any()));
    let (i0, i1): (u8, u8) = (kani::any(), kani::any());
    kani::assume(i0 < 3 && i1 < 3);
    let (u0, u1): (u32, u32) = (kani::any(), kani::any());
    let r0 = p.add_raw(Bytes::from_static(&*d0), &bid(i0), 3, NonZeroU32::new(u0));
    assert!(r0.is_ok()); std::mem::forget(r0);
    let r1 = p.add_raw(Bytes::from_static(&*d1), &bid(i1), 2, NonZeroU32::new(u1));
    assert!(r1.is_ok()); std::mem::forget(r1);
    let dup = i0 == i1;
    {
        let blobs = &p.index.blobs;
        assert!(blobs[0].id == bid(i0) && blobs[0].tpe == p.blob_type);
        assert!(blobs[0].location == BlobLocation { offset: 0, length: 3, uncompressed_length: NonZeroU32::new(u0) });
        if dup {
            assert!(blobs.len() == 1 && p.size == 3 && p.count == 1);
            assert!(p.file.slice().len() == 1);
        } else {
            assert!(blobs.len() == 2 && p.size == 5 && p.count == 2);
            assert!(blobs[1].id == bid(i1) && blobs[1].tpe == p.blob_type);
            assert!(blobs[1].location == BlobLocation { offset: 3, length: 2, uncompressed_length: NonZeroU32::new(u1) });
            // pack bytes at the indexed offsets are the data added
            let f = p.file.slice();
            assert!(f.len() == 2 && f[0].len() == 3 && f[1].len() == 2);
            assert!(f[0][0] == d0[0] && f[0][1] == d0[1] && f[0][2] == d0[2] && f[1][0] == d1[0] && f[1][1] == d1[1]);
        }
        assert!(p.has(&bid(i0)) && p.has(&bid(i1)));
        assert!(!p.is_empty());
    }
    // header of exactly the size the index implies (content symbolic: stands for the encrypted header)
    let hsize = PackHeaderRef::from_index_pack(&p.index).size() as usize;
    let e0 = if u0 == 0 { 37 } else { 41 };
    let e1 = if u1 == 0 { 37 } else { 41 };
    assert!(hsize == 32 + e0 + if dup { 0 } else { e1 });
    let hbuf: &'static mut [u8; 114] = Box::leak(Box::new(kani::any()));
    let before = p.size;
    let r = p.write_header(Bytes::from_static(&hbuf[..hsize]));
    assert!(r.is_ok()); std::mem::forget(r);
    assert!(p.size as usize == before as usize + hsize + 4);
    // the index' idea of the pack size is the number of bytes in the file
    assert!(p.index.pack_size() == p.size);
    assert!(p.file.size() == p.size as usize);
    let nparts = p.file.slice().len();
    assert!(p.file.slice()[nparts - 1].len() == 4 && p.file.slice()[nparts - 2].len() == hsize);
    let total = p.size;
    let (file, index) = p.take_data();
    assert!(p.size == 0 && p.count == 0 && p.is_empty() && p.index.blobs.is_empty() && p.file.size() == 0);
    assert!(file.size() == total as usize && index.blobs.len() == if dup { 1 } else { 2 });
    assert!(p.pack_sizer.current_size == u64::from(total));
    kani::cover!(dup, "second blob already in the open pack");
    kani::cover!(!dup && u0 != 0 && u1 == 0, "mixed compressed / uncompressed entries");
    std::mem::forget(file); std::mem::forget(index); std::mem::forget(p);
}
