#![allow(warnings, clippy::all, clippy::pedantic, clippy::nursery)]
//@ module: blob::packer
use super::*;
use crate::error::verif_harness as vh;

//@ harness: c18_pack_size_no_overflow
//@ prop: C18
//@ tier: quick
//@ timeout: 300
//@ kernel: PackSizer::pack_size, integer_sqrt
//@ bound: all six PackSizer fields fully symbolic (u32/u64); integer_sqrt loop unwind 34 (32 iterations for u64)
//@ oracle: no arithmetic overflow / panic; result <= MAX_SIZE
#[kani::proof]
#[kani::unwind(34)]
pub(crate) fn c18_pack_size_no_overflow() {
    let ps = PackSizer {
        default_size: kani::any(),
        grow_factor: kani::any(),
        size_limit: kani::any(),
        current_size: kani::any(),
        min_packsize_tolerate_percent: kani::any(),
        max_packsize_tolerate_percent: kani::any(),
    };
    let s = ps.pack_size();
    kani::cover!(true, "reached");
    assert!(s <= constants::MAX_SIZE);
}
