#![allow(warnings, clippy::all, clippy::pedantic, clippy::nursery)]
//@ module: chunker::rabin
use super::*;
use crate::error::verif_harness as vh;
use std::io::{self, Read};

pub(crate) const POLY: u64 = 0x003D_A335_8B4D_C173; // restic/rustic default polynomial, degree 53
const WINDOW: usize = 64;

/// Reader over a symbolic byte array.  Up to `short` calls return a *symbolic* number
/// 1..=min(avail, buf.len()) of bytes (short reads at solver-chosen points), afterwards every call returns
/// all it can; up to `intr` calls fail with ErrorKind::Interrupted.  Fragmentation is a solver variable;
/// the number of short reads per harness run is bounded so that std's read_to_end loop has a small bound.
pub(crate) struct FragReader<const N: usize, const INTR: bool> {
    pub data: [u8; N],
    pub len: usize,
    pub pos: usize,
    pub intr: u8,
    pub short: u8,
}
impl<const N: usize, const INTR: bool> Read for FragReader<N, INTR> {
    fn read(&mut self, buf: &mut [u8]) -> io::Result<usize> {
        let avail = self.len - self.pos;
        if avail == 0 || buf.is_empty() {
            return Ok(0);
        }
        if INTR && self.intr > 0 && kani::any() {
            self.intr -= 1;
            return Err(io::Error::from(io::ErrorKind::Interrupted));
        }
        let max = avail.min(buf.len());
        let mut n = max;
        if self.short > 0 {
            let k: usize = kani::any();
            kani::assume(k >= 1 && k <= max);
            if k < max { self.short -= 1; }
            n = k;
        }
        // byte-wise with a constant trip count: a memcpy of symbolic size is far more expensive for CBMC
        let mut i = 0;
        while i < N {
            if i < n { buf[i] = self.data[self.pos + i]; }
            i += 1;
        }
        self.pos += n;
        Ok(n)
    }
}

/// Model of std's provided `Read::read_to_end` (contract: read until EOF, append everything, retry on
/// Interrupted).  std's implementation (probe buffers, capacity doubling, BorrowedBuf zero-filling) works on
/// vectors of symbolic length and capacity and is out of CBMC's reach (100 loop iterations in 120 s, measured);
/// the model reads through the same `Read::read` of the same reader - so read fragmentation stays symbolic -
/// into a stack buffer and appends once.  Same trait shape as std::io::Read for Kani's trait-method stubbing.
pub(crate) trait ReadToEndModel: Read {
    fn read_to_end(&mut self, buf: &mut Vec<u8>) -> io::Result<usize> {
        let mut tmp = [0u8; 96];
        let mut total = 0usize;
        // at most 2 short reads + 2 interrupts + 1 full read + 1 end-of-stream read per call (FragReader's bounds);
        // a syntactically bounded loop: an open `loop` is unwound to the global bound (each round = a full reader loop)
        let mut rounds = 0;
        let mut done = false;
        while rounds < 6 {
            if !done {
                match self.read(&mut tmp[total..]) {
                    Ok(0) => done = true,
                    Ok(n) => total += n,
                    Err(e) => {
                        if e.kind() == io::ErrorKind::Interrupted { std::mem::forget(e); } else { return Err(e); }
                    }
                }
            }
            rounds += 1;
        }
        assert!(done, "read_to_end model: more read calls than the harness bound");
        buf.extend_from_slice(&tmp[..total]);
        Ok(total)
    }
}
impl<R: Read> ReadToEndModel for R {}

/// p mod POLY for deg(p) <= 60, by shift-and-subtract (no tables, no rolling)
fn polymod61(mut p: u64) -> u64 {
    let mut d = 60;
    while d >= 53 {
        if (p >> d) & 1 == 1 {
            p ^= POLY << (d - 53);
        }
        d -= 1;
    }
    p
}

/// direct polynomial remainder of a byte string (most significant byte first)
fn fingerprint(bytes: &[u8]) -> u64 {
    let mut h = 0u64;
    let mut i = 0;
    while i < bytes.len() {
        h = polymod61((h << 8) | u64::from(bytes[i]));
        i += 1;
    }
    h
}

/// Reference cut position for the chunk starting at `start` in data[..len]:
/// first p >= start+min with fingerprint(window(p)) & (size-1) == 0, else start+max, else len.
/// window(p) = last <=64 bytes of  data[start+min-64 .. start+min-1) ++ data[start+min .. p)
/// (rustic's own window: the prefill consumes 63 bytes, the byte at start+min-1 is never hashed).
/// SPAN = max - min (concrete), so every loop here has a concrete trip count.
fn reference_cut<const N: usize, const SPAN: usize>(data: &[u8; N], len: usize, start: usize, size: usize, min: usize, max: usize) -> usize {
    if len - start < min {
        return len;
    }
    let mut s = [0u8; 160];
    let mut k = 0;
    while k < WINDOW - 1 {
        s[k] = data[start + min - WINDOW + k];
        k += 1;
    }
    let mut j = 0; // number of bytes slid in so far; candidate position p = start + min + j
    while j <= SPAN {
        let p = start + min + j;
        if j == SPAN {
            return p; // max size reached
        }
        let n = WINDOW - 1 + j;
        let lo = if n > WINDOW { n - WINDOW } else { 0 };
        let mut h = 0u64;
        let mut i = 0;
        while i < WINDOW {
            if lo + i < n { h = polymod61((h << 8) | u64::from(s[lo + i])); }
            i += 1;
        }
        if h & (size as u64 - 1) == 0 {
            return p;
        }
        if p == len {
            return len;
        }
        s[n] = data[p];
        j += 1;
    }
    start + max
}

/// one chunk: checks non-empty / bounded / content-defined / lossless, returns new start
fn check_chunk<const N: usize, const SPAN: usize>(v: &Vec<u8>, data: &[u8; N], len: usize, start: usize, size: usize, min: usize, max: usize) -> usize {
    assert!(!v.is_empty());
    assert!(v.len() <= max);
    assert!(start + v.len() <= len);
    let expect = reference_cut::<N, SPAN>(data, len, start, size, min, max);
    assert!(start + v.len() == expect);
    if start + v.len() < len {
        assert!(v.len() >= min);
    }
    let mut i = 0;
    while i < v.len() {
        assert!(v[i] == data[start + i]);
        i += 1;
    }
    start + v.len()
}

/// One step of the iterator from a valid mid-stream state (inductive step): look-ahead buffer with UNREAD
/// symbolic bytes left over from the previous chunk, Rabin state disturbed by previously slid bytes, reader with
/// LEN remaining symbolic bytes.  Lengths are concrete per instance ("shapes", DESIGN 1.3): with symbolic
/// lengths `vec.resize(open_buf_len)` / `copy_from_slice` in the real code are symbolic-size memcpys and CBMC's
/// symbolic execution does not get past them in 25 min (measured).  All byte values are symbolic.
/// Invariant of ChunkIter between calls: pos <= buf.len(); finished => nothing left anywhere.
fn step_check<const UNREAD: usize, const LEN: usize, const TOTAL: usize, const SPAN: usize, const INTR: bool>(size: usize, min: usize, max: usize, short: u8, intr: u8, hint: usize, k: u8) {
    let mut rabin = Rabin64::new_with_polynom(6, &POLY);
    // remaining input = look[pos..] ++ data; laid out in one array `all` for the reference
    let all: [u8; TOTAL] = kani::any();
    let total = UNREAD + LEN;
    // previous chunk left the rolling hash in some state: slide up to two arbitrary bytes
    // (k is concrete per instance: a symbolic slide count makes the window index symbolic, and with it every one of
    //  the 63 prefill writes - symbolic execution then does not finish in 25 min)
    if k >= 1 { rabin.slide(kani::any()); }
    if k >= 2 { rabin.slide(kani::any()); }
    let mut data = [0u8; LEN];
    let mut i = 0;
    while i < LEN { data[i] = all[UNREAD + i]; i += 1; }
    let reader = FragReader::<LEN, INTR> { data, len: LEN, pos: 0, intr, short };
    let mut it = ChunkIter::new(rabin, size, min, max, reader, hint).unwrap();
    // look-ahead state: 3 already consumed bytes, then the UNREAD ones
    let pos = 3usize;
    let mut buf = Vec::with_capacity(UNREAD + 3);
    let mut i = 0;
    while i < UNREAD + 3 { buf.push(if i >= pos { all[i - pos] } else { 0xEE }); i += 1; }
    it.buf = buf;
    it.pos = pos;
    let r = it.next();
    match r {
        None => { assert!(total == 0); assert!(it.finished); }
        Some(Ok(v)) => {
            let c = v.len();
            // non-empty, bounded, content-defined, lossless
            assert!(c >= 1 && c <= max && c <= total);
            let expect = reference_cut::<TOTAL, SPAN>(&all, total, 0, size, min, max);
            assert!(c == expect);
            if c < total { assert!(c >= min); }
            let mut i = 0;
            while i < c { assert!(v[i] == all[i]); i += 1; }
            // continuation: what the iterator still holds plus what the reader still has is exactly the rest
            assert!(it.pos <= it.buf.len());
            let held = it.buf.len() - it.pos;
            let rest_reader = it.reader.len - it.reader.pos;
            assert!(held + rest_reader == total - c);
            let mut j = 0;
            while j < held { assert!(it.buf[it.pos + j] == all[c + j]); j += 1; }
            assert!(it.reader.pos + UNREAD == c + held);
            if it.finished { assert!(held == 0 && rest_reader == 0); }
            kani::cover!(total < min || total <= c || (c < max && c < total), "a content-defined cut before max size with data remaining");
            kani::cover!(total < max || c == max, "cut at max size");
            kani::cover!(total >= min || c == total, "short last chunk");
            std::mem::forget(v);
        }
        Some(Err(e)) => { std::mem::forget(e); assert!(false, "chunker returned an error on a reader that never fails"); }
    }
    std::mem::forget(it);
}

//@ harness: c06_rabin_step_fresh_76
//@ prop: C06
//@ tier: experimental
//@ timeout: 1500
//@ mem: 24
//@ unwindset: calculate_out_table#0=64; calculate_out_table#1=258; calculate_mod_table#0=258; modulo#0=64
//@ kernel: chunker::rabin::ChunkIter::{new,next}, check_rabin_params, rustic_cdc::Rabin64::{new_with_polynom,calculate_out_table,calculate_mod_table,reset_and_prefill_window,slide}, Polynom64::{modulo,degree}
//@ bound: ONE call of next() from a valid iterator state (inductive step over chunks): polynomial 0x3DA3358B4DC173; (avg,min,max)=(64,64,72); shape: empty look-ahead, 76 stream bytes, one short read of symbolic length at a symbolic point; every byte symbolic; rolling hash disturbed by 0, 1 or 2 (per shape) previously slid symbolic bytes; size_hint usize::MAX (the archiver passes the file size)
//@ oracle: the chunk is the next c bytes of the remaining input with c == reference_cut (direct polynomial remainder over rustic's 64-byte window, no tables, no rolling): non-empty, min<=c<=max unless the stream ends, independent of the previous hash state and of read fragmentation; afterwards the iterator's look-ahead plus the reader's rest is exactly the remaining input (lossless continuation) and the state invariant holds; None only when nothing remains
//@ stub: std::io::Read::read_to_end -> contract model (reads via the same Read::read until EOF, appends once)
//@ assume: ChunkIter invariant between calls: pos <= buf.len() (established by new(), re-established by this step)
//@ outside: other look-ahead/stream lengths than the listed shapes (real look-ahead buffer: 4 KiB); other polynomials; random_poly search
#[kani::proof]
#[kani::unwind(90)]
#[kani::stub(std::backtrace::Backtrace::capture, crate::error::verif_harness::stub_backtrace_capture)]
#[kani::stub(std::io::Read::read_to_end, crate::chunker::rabin::verif_harness::ReadToEndModel::read_to_end)]
pub(crate) fn c06_rabin_step_fresh_76() {
    step_check::<0, 76, 76, 8, false>(64, 64, 72, 1, 0, usize::MAX, 0);
}

//@ harness: c06_rabin_step_lookahead_5_71 c06_rabin_step_short_last c06_rabin_step_empty
//@ prop: C06
//@ tier: experimental
//@ timeout: 1500
//@ mem: 24
//@ unwindset: calculate_out_table#0=64; calculate_out_table#1=258; calculate_mod_table#0=258; modulo#0=64
//@ kernel: chunker::rabin::ChunkIter::{new,next}, check_rabin_params, rustic_cdc::Rabin64::{new_with_polynom,calculate_out_table,calculate_mod_table,reset_and_prefill_window,slide}, Polynom64::{modulo,degree}
//@ bound: ONE call of next() from a valid iterator state (inductive step over chunks): polynomial 0x3DA3358B4DC173; (avg,min,max)=(64,64,72); shapes: 5 unread look-ahead bytes + 71 stream bytes; 5 look-ahead + 30 stream bytes (final chunk below min); nothing left (None); every byte symbolic; rolling hash disturbed by 0, 1 or 2 (per shape) previously slid symbolic bytes; size_hint usize::MAX (the archiver passes the file size)
//@ oracle: the chunk is the next c bytes of the remaining input with c == reference_cut (direct polynomial remainder over rustic's 64-byte window, no tables, no rolling): non-empty, min<=c<=max unless the stream ends, independent of the previous hash state and of read fragmentation; afterwards the iterator's look-ahead plus the reader's rest is exactly the remaining input (lossless continuation) and the state invariant holds; None only when nothing remains
//@ stub: std::io::Read::read_to_end -> contract model (reads via the same Read::read until EOF, appends once)
//@ assume: ChunkIter invariant between calls: pos <= buf.len() (established by new(), re-established by this step)
//@ outside: other look-ahead/stream lengths than the listed shapes (real look-ahead buffer: 4 KiB); other polynomials; random_poly search
#[kani::proof]
#[kani::unwind(90)]
#[kani::stub(std::backtrace::Backtrace::capture, crate::error::verif_harness::stub_backtrace_capture)]
#[kani::stub(std::io::Read::read_to_end, crate::chunker::rabin::verif_harness::ReadToEndModel::read_to_end)]
pub(crate) fn c06_rabin_step_lookahead_5_71() {
    step_check::<5, 71, 76, 8, false>(64, 64, 72, 0, 0, usize::MAX, 2);
}
#[kani::proof]
#[kani::unwind(90)]
#[kani::stub(std::backtrace::Backtrace::capture, crate::error::verif_harness::stub_backtrace_capture)]
#[kani::stub(std::io::Read::read_to_end, crate::chunker::rabin::verif_harness::ReadToEndModel::read_to_end)]
pub(crate) fn c06_rabin_step_short_last() {
    step_check::<5, 30, 35, 8, false>(64, 64, 72, 0, 0, usize::MAX, 1);
}
#[kani::proof]
#[kani::unwind(90)]
#[kani::stub(std::backtrace::Backtrace::capture, crate::error::verif_harness::stub_backtrace_capture)]
#[kani::stub(std::io::Read::read_to_end, crate::chunker::rabin::verif_harness::ReadToEndModel::read_to_end)]
pub(crate) fn c06_rabin_step_empty() {
    step_check::<0, 0, 1, 8, false>(64, 64, 72, 0, 0, usize::MAX, 0);
}

//@ harness: c06_rabin_step_64_80_frag c06_rabin_step_hint0
//@ prop: C06
//@ tier: experimental
//@ timeout: 3400
//@ mem: 30
//@ unwindset: calculate_out_table#0=64; calculate_out_table#1=258; calculate_mod_table#0=258; modulo#0=64
//@ kernel: chunker::rabin::ChunkIter::{new,next}, check_rabin_params, rustic_cdc::Rabin64::{new_with_polynom,calculate_out_table,calculate_mod_table,reset_and_prefill_window,slide}, Polynom64::{modulo,degree}
//@ bound: ONE call of next() from a valid iterator state (inductive step over chunks): polynomial 0x3DA3358B4DC173; (avg,min,max)=(64,64,72); shapes: (avg,min,max)=(64,64,80), 9 look-ahead + 75 stream bytes, two symbolic short reads and up to 2 Interrupted results; and the fresh 76-byte shape with size_hint 0; every byte symbolic; rolling hash disturbed by 0, 1 or 2 (per shape) previously slid symbolic bytes; size_hint usize::MAX (the archiver passes the file size)
//@ oracle: the chunk is the next c bytes of the remaining input with c == reference_cut (direct polynomial remainder over rustic's 64-byte window, no tables, no rolling): non-empty, min<=c<=max unless the stream ends, independent of the previous hash state and of read fragmentation; afterwards the iterator's look-ahead plus the reader's rest is exactly the remaining input (lossless continuation) and the state invariant holds; None only when nothing remains
//@ stub: std::io::Read::read_to_end -> contract model (reads via the same Read::read until EOF, appends once)
//@ assume: ChunkIter invariant between calls: pos <= buf.len() (established by new(), re-established by this step)
//@ outside: other look-ahead/stream lengths than the listed shapes (real look-ahead buffer: 4 KiB); other polynomials; random_poly search
#[kani::proof]
#[kani::unwind(100)]
#[kani::stub(std::backtrace::Backtrace::capture, crate::error::verif_harness::stub_backtrace_capture)]
#[kani::stub(std::io::Read::read_to_end, crate::chunker::rabin::verif_harness::ReadToEndModel::read_to_end)]
pub(crate) fn c06_rabin_step_64_80_frag() {
    step_check::<9, 75, 84, 16, true>(64, 64, 80, 2, 2, usize::MAX, 2);
}
#[kani::proof]
#[kani::unwind(90)]
#[kani::stub(std::backtrace::Backtrace::capture, crate::error::verif_harness::stub_backtrace_capture)]
#[kani::stub(std::io::Read::read_to_end, crate::chunker::rabin::verif_harness::ReadToEndModel::read_to_end)]
pub(crate) fn c06_rabin_step_hint0() {
    step_check::<0, 76, 76, 8, false>(64, 64, 72, 1, 0, 0, 1);
}

//@ harness: c06_rabin_small_params_a c06_rabin_small_params_c c06_rabin_small_params_e c06_rabin_small_params_f
//@ prop: C06
//@ tier: quick
//@ timeout: 2400
//@ mem: 6
//@ unwindset: calculate_out_table#0=4; calculate_out_table#1=258; calculate_mod_table#0=258; modulo#0=64
//@ kernel: chunker::rabin::ChunkIter::next from a valid iterator state with small accepted parameters, check_rabin_params
//@ bound: accepted parameter triples (avg,min,max) = (64,16,72) with 20 unread look-ahead bytes + 8 stream bytes [minimum below the 64-byte window and below the look-ahead fill]; (32,8,40) with 3 look-ahead + 50 stream bytes [minimum below the window, plenty of data]; (64,64,72) with 20 + 8 bytes [final short chunk]; (64,0,72) with 3 + 10 bytes [minimum size 0, if accepted]; (64,64,72) with 20 + 60 bytes [look-ahead bytes count towards the minimum: more data than max size available]; all bytes symbolic; full reads; one call of next(); the Rabin64 instance has a 2-byte window (hash values are not the subject here, ChunkIter::next's own arithmetic is)
//@ oracle: no panic (no underflow, no out-of-range slice); the chunk has 1..=max bytes, consists of exactly the next unread bytes, and is >= min unless the stream ended; the rest stays available (look-ahead + reader)
//@ stub: std::io::Read::read_to_end -> contract model
//@ assume: parameters are accepted by check_rabin_params (asserted)
//@ outside: other parameter values (symbolic parameters make every length symbolic: measured out of reach, 25 min)
//@ harness: c06_rabin_small_params_b c06_rabin_small_params_d
//@ prop: C06 C18
//@ tier: quick
//@ timeout: 2400
//@ mem: 6
//@ unwindset: calculate_out_table#0=4; calculate_out_table#1=258; calculate_mod_table#0=258; modulo#0=64
//@ kernel: chunker::rabin::ChunkIter::next from a valid iterator state with small accepted parameters, check_rabin_params
//@ bound: accepted parameter triples (avg,min,max) = (64,16,72) with 20 unread look-ahead bytes + 8 stream bytes [minimum below the 64-byte window and below the look-ahead fill]; (32,8,40) with 3 look-ahead + 50 stream bytes [minimum below the window, plenty of data]; (64,64,72) with 20 + 8 bytes [final short chunk]; (64,0,72) with 3 + 10 bytes [minimum size 0, if accepted]; (64,64,72) with 20 + 60 bytes [look-ahead bytes count towards the minimum: more data than max size available]; all bytes symbolic; full reads; one call of next(); the Rabin64 instance has a 2-byte window (hash values are not the subject here, ChunkIter::next's own arithmetic is)
//@ oracle: no panic (no underflow, no out-of-range slice); the chunk has 1..=max bytes, consists of exactly the next unread bytes, and is >= min unless the stream ended; the rest stays available (look-ahead + reader)
//@ stub: std::io::Read::read_to_end -> contract model
//@ assume: parameters are accepted by check_rabin_params (asserted)
//@ outside: other parameter values (symbolic parameters make every length symbolic: measured out of reach, 25 min)
macro_rules! small_params_instance {
    ($name:ident, $size:expr, $min:expr, $max:expr, $look:expr, $n:expr) => {
        #[kani::proof]
        #[kani::unwind(76)]
        #[kani::stub(std::backtrace::Backtrace::capture, crate::error::verif_harness::stub_backtrace_capture)]
        #[kani::stub(std::io::Read::read_to_end, crate::chunker::rabin::verif_harness::ReadToEndModel::read_to_end)]
        pub(crate) fn $name() { small_params_check::<$look, $n>($size, $min, $max); }
    };
}
//@ instance: c06_rabin_small_params_a c06_rabin_small_params_b c06_rabin_small_params_c c06_rabin_small_params_d c06_rabin_small_params_e c06_rabin_small_params_f
small_params_instance!(c06_rabin_small_params_a, 64, 16, 72, 20, 8);
small_params_instance!(c06_rabin_small_params_b, 32, 8, 40, 3, 50);
small_params_instance!(c06_rabin_small_params_c, 64, 64, 72, 20, 8);
small_params_instance!(c06_rabin_small_params_d, 64, 0, 72, 3, 10);
small_params_instance!(c06_rabin_small_params_e, 64, 64, 72, 20, 60);
// f: the tail of the file sits only in the look-ahead buffer and the reader is already at EOF (seed C01-3)
small_params_instance!(c06_rabin_small_params_f, 64, 64, 72, 5, 0);

fn small_params_check<const UNREAD: usize, const N: usize>(size: usize, min: usize, max: usize) {
    let ok = check_rabin_params(size, min, max);
    let accepted = ok.is_ok();
    std::mem::forget(ok);
    if !accepted {
        // a refused triple is fine ("accepted configurations work"); the instances a-c must stay accepted
        assert!(min == 0, "a parameter triple this harness relies on is no longer accepted");
        small_params_witness();
        return;
    }
    let data: [u8; N] = kani::any();
    let look: [u8; UNREAD] = kani::any();
    let rabin = Rabin64::new_with_polynom(1, &POLY);
    let mut it = ChunkIter::new(rabin, size, min, max, FragReader::<N, false> { data, len: N, pos: 0, intr: 0, short: 0 }, usize::MAX).unwrap();
    // look-ahead state: 4 consumed bytes, then UNREAD unread ones
    let pos = 4usize;
    let mut buf = Vec::with_capacity(UNREAD + 4);
    let mut i = 0;
    while i < UNREAD + 4 { buf.push(if i >= pos { look[i - pos] } else { 0xEE }); i += 1; }
    it.buf = buf;
    it.pos = pos;
    let total = UNREAD + N;
    match it.next() {
        None => assert!(total == 0),
        Some(Ok(v)) => {
            let c = v.len();
            assert!(c >= 1 && c <= max && c <= total);
            let mut i = 0;
            while i < c {
                let expect = if i < UNREAD { look[i] } else { data[i - UNREAD] };
                assert!(v[i] == expect);
                i += 1;
            }
            if c < total { assert!(c >= min); }
            assert!(it.pos <= it.buf.len());
            let held = it.buf.len() - it.pos;
            assert!(held + (it.reader.len - it.reader.pos) == total - c);
            small_params_witness();
            std::mem::forget(v);
        }
        Some(Err(e)) => { std::mem::forget(e); assert!(false); }
    }
    std::mem::forget(it);
}

// one cover site for both ends of small_params_check (a cover in the branch an instance never takes would read as vacuity)
#[inline(never)]
fn small_params_witness() { kani::cover!(true, "a chunk was produced, or the triple was refused"); }

// ---------------------------------------------------------------------------
// Relational step harness.  Proving that the table-driven rolling hash equals a directly computed polynomial
// remainder is an equivalence of two different XOR networks over ~600 input bits; CDCL SAT solvers have no
// parity reasoning and the instance exhausts 19 GB (measured, c06_rabin_step_* with the reference oracle).
// The quick tier therefore checks content-definedness *relationally*: the same remaining input, presented to two
// iterators in different states (different look-ahead split, different previous hash state), must be cut at the
// same place - then both computations are the same circuit over the same bytes unless the code lets state leak.
// ---------------------------------------------------------------------------
struct StepOut { c: usize, held: usize, rest: usize, finished: bool, hash_low: u64, first: u8, last: u8, none: bool }

fn one_step<const UNREAD: usize, const LEN: usize, const TOTAL: usize>(rabin: Rabin64, all: &[u8; TOTAL], size: usize, min: usize, max: usize, short: u8, hint: usize) -> StepOut {
    let mut data = [0u8; LEN];
    let mut i = 0;
    while i < LEN { data[i] = all[UNREAD + i]; i += 1; }
    let reader = FragReader::<LEN, false> { data, len: LEN, pos: 0, intr: 0, short };
    let mut it = ChunkIter::new(rabin, size, min, max, reader, hint).unwrap();
    let pos = 3usize;
    let mut buf = Vec::with_capacity(UNREAD + 3);
    let mut i = 0;
    while i < UNREAD + 3 { buf.push(if i >= pos { all[i - pos] } else { 0xEE }); i += 1; }
    it.buf = buf;
    it.pos = pos;
    let total = UNREAD + LEN;
    let r = it.next();
    let out = match r {
        None => StepOut { c: 0, held: 0, rest: 0, finished: it.finished, hash_low: 0, first: 0, last: 0, none: true },
        Some(Ok(v)) => {
            let c = v.len();
            // non-empty, bounded, lossless, continuation
            assert!(c >= 1 && c <= max && c <= total);
            if c < total { assert!(c >= min); }
            let mut i = 0;
            while i < c { assert!(v[i] == all[i]); i += 1; }
            assert!(it.pos <= it.buf.len());
            let held = it.buf.len() - it.pos;
            let rest = it.reader.len - it.reader.pos;
            assert!(held + rest == total - c);
            let mut j = 0;
            while j < held { assert!(it.buf[it.pos + j] == all[c + j]); j += 1; }
            assert!(it.reader.pos + UNREAD == c + held);
            if it.finished { assert!(held == 0 && rest == 0); }
            // a cut before max size with data remaining happens only where the fingerprint's low bits are zero
            if c < max && c < total { assert!(it.rabin.hash & (size as u64 - 1) == 0); }
            let o = StepOut { c, held, rest, finished: it.finished, hash_low: it.rabin.hash & (size as u64 - 1), first: v[0], last: v[c - 1], none: false };
            std::mem::forget(v);
            o
        }
        Some(Err(e)) => { std::mem::forget(e); assert!(false, "chunker returned an error on a reader that never fails"); StepOut { c: 0, held: 0, rest: 0, finished: false, hash_low: 0, first: 0, last: 0, none: true } }
    };
    std::mem::forget(it);
    out
}

/// iterator A: UA look-ahead bytes + LA stream bytes, fresh hash state;
/// iterator B: UB look-ahead bytes + LB stream bytes, hash state disturbed by two previously slid symbolic bytes, a short read
fn pair_check<const UA: usize, const LA: usize, const UB: usize, const LB: usize, const TOTAL: usize, const SHORT_B: u8>(size: usize, min: usize, max: usize) { pair_check_w::<UA, LA, UB, LB, TOTAL, SHORT_B>(6, size, min, max) }

fn pair_check_w<const UA: usize, const LA: usize, const UB: usize, const LB: usize, const TOTAL: usize, const SHORT_B: u8>(window_bits: u32, size: usize, min: usize, max: usize) {
    pair_check_wd::<UA, LA, UB, LB, TOTAL, SHORT_B>(window_bits, 2, size, min, max)
}

/// `disturb`: number of symbolic bytes slid through iterator B's hash before the step (a full window of stale bytes
/// is needed for a leak to survive the prefill, and the window must be >= 8 bytes for a stale byte - shifted up by
/// window-1 bytes - to be reduced modulo the degree-53 polynomial into the low bits the split mask looks at)
fn pair_check_wd<const UA: usize, const LA: usize, const UB: usize, const LB: usize, const TOTAL: usize, const SHORT_B: u8>(window_bits: u32, disturb: usize, size: usize, min: usize, max: usize) {
    let rabin = Rabin64::new_with_polynom(window_bits, &POLY);
    let all: [u8; TOTAL] = kani::any();
    let a = one_step::<UA, LA, TOTAL>(rabin.clone(), &all, size, min, max, 0, usize::MAX);
    let mut rb = rabin;
    let mut k = 0;
    while k < disturb { rb.slide(kani::any()); k += 1; }
    let b = one_step::<UB, LB, TOTAL>(rb, &all, size, min, max, SHORT_B, usize::MAX);
    // content-defined: same remaining bytes => same cut, whatever the iterator state and read fragmentation
    assert!(a.none == b.none);
    assert!(a.c == b.c);
    assert!(a.held + a.rest == b.held + b.rest);
    if TOTAL >= 1 && !a.none { assert!(a.first == b.first && a.last == b.last); }
    kani::cover!(TOTAL < max || (!a.none && a.c < max), "a content-defined cut before max size with data remaining");
    kani::cover!(TOTAL < max || a.c == max, "cut at max size");
    kani::cover!(TOTAL >= min || a.c == TOTAL, "short last chunk");
}

//@ harness: c06_rabin_pair_0_5
//@ prop: C06
//@ tier: experimental
//@ timeout: 1500
//@ mem: 24
//@ unwindset: calculate_out_table#0=64; calculate_out_table#1=258; calculate_mod_table#0=258; modulo#0=64
//@ kernel: chunker::rabin::ChunkIter::{new,next}, check_rabin_params, rustic_cdc::Rabin64::{new_with_polynom,calculate_out_table,calculate_mod_table,reset_and_prefill_window,slide}
//@ bound: polynomial 0x3DA3358B4DC173, (avg,min,max)=(64,64,72); one call of next() on each of two iterators over the same 76 symbolic remaining bytes: A = empty look-ahead + 76 stream bytes, fresh hash; B = 5 unread look-ahead bytes + 71 stream bytes, hash disturbed by two previously slid symbolic bytes; full reads (symbolic short reads: thorough tier c06_rabin_pair_frag); size_hint usize::MAX
//@ oracle: each step: chunk non-empty, <= max, >= min unless the stream ends, equal to the next bytes of the input (lossless), look-ahead + reader rest = remaining input (continuation), a cut before max with data remaining only where the implementation's fingerprint has its low bits zero; relational: both iterators cut at the same place (cut depends only on the bytes since the previous cut - not on look-ahead split, read fragmentation or previous hash state)
//@ stub: std::io::Read::read_to_end -> contract model
//@ assume: ChunkIter invariant between calls: pos <= buf.len()
//@ outside: equality of rustic's rolling fingerprint with the mathematical Rabin fingerprint of the window (XOR-network equivalence, out of reach for the SAT back end: thorough-tier attempts c06_rabin_step_* with the table-free reference are recorded as inconclusive when they do not finish); other parameters / polynomials / look-ahead fills
#[kani::proof]
#[kani::unwind(90)]
#[kani::stub(std::backtrace::Backtrace::capture, crate::error::verif_harness::stub_backtrace_capture)]
#[kani::stub(std::io::Read::read_to_end, crate::chunker::rabin::verif_harness::ReadToEndModel::read_to_end)]
pub(crate) fn c06_rabin_pair_0_5() { pair_check::<0, 76, 5, 71, 76, 0>(64, 64, 72); }

//@ harness: c06_rabin_pair_short_last
//@ prop: C06
//@ tier: experimental
//@ timeout: 1500
//@ mem: 24
//@ unwindset: calculate_out_table#0=64; calculate_out_table#1=258; calculate_mod_table#0=258; modulo#0=64
//@ kernel: as c06_rabin_pair_0_5
//@ bound: as c06_rabin_pair_0_5 with 35 remaining bytes (final chunk below min): A = 0 + 35, B = 5 + 30
//@ oracle: as c06_rabin_pair_0_5
//@ stub: std::io::Read::read_to_end -> contract model
#[kani::proof]
#[kani::unwind(90)]
#[kani::stub(std::backtrace::Backtrace::capture, crate::error::verif_harness::stub_backtrace_capture)]
#[kani::stub(std::io::Read::read_to_end, crate::chunker::rabin::verif_harness::ReadToEndModel::read_to_end)]
pub(crate) fn c06_rabin_pair_short_last() { pair_check::<0, 35, 5, 30, 35, 0>(64, 64, 72); }

//@ harness: c06_rabin_pair_frag
//@ prop: C06
//@ tier: experimental
//@ timeout: 3400
//@ mem: 30
//@ unwindset: calculate_out_table#0=64; calculate_out_table#1=258; calculate_mod_table#0=258; modulo#0=64
//@ kernel: as c06_rabin_pair_0_5
//@ bound: as c06_rabin_pair_0_5, iterator B additionally sees one short read of symbolic length at a symbolic point
//@ oracle: as c06_rabin_pair_0_5
//@ stub: std::io::Read::read_to_end -> contract model
#[kani::proof]
#[kani::unwind(90)]
#[kani::stub(std::backtrace::Backtrace::capture, crate::error::verif_harness::stub_backtrace_capture)]
#[kani::stub(std::io::Read::read_to_end, crate::chunker::rabin::verif_harness::ReadToEndModel::read_to_end)]
pub(crate) fn c06_rabin_pair_frag() { pair_check::<0, 76, 5, 71, 76, 1>(64, 64, 72); }

//@ harness: c06_rabin_pair_small
//@ prop: C06
//@ tier: quick
//@ timeout: 3000
//@ mem: 8
//@ unwindset: calculate_out_table#0=4; calculate_out_table#1=258; calculate_mod_table#0=258; modulo#0=64
//@ kernel: chunker::rabin::ChunkIter::{new,next}, rustic_cdc::Rabin64::{reset_and_prefill_window,slide} (2-byte window instance)
//@ bound: polynomial 0x3DA3358B4DC173, Rabin64 with a 2-byte window, (avg,min,max)=(16,4,20); one call of next() on each of two iterators over the same 24 symbolic remaining bytes: A = empty look-ahead + 24 stream bytes, fresh hash state; B = 3 unread look-ahead bytes + 21 stream bytes, hash state disturbed by two previously slid symbolic bytes; full reads
//@ oracle: per step as c06_rabin_pair_0_5 (non-empty, bounded, lossless, continuation, early cut only at a zero fingerprint); relational: both iterators cut the same remaining input at the same place (the cut does not depend on the look-ahead split nor on the hash state left by the previous chunk)
//@ stub: std::io::Read::read_to_end -> contract model
//@ assume: ChunkIter invariant between calls: pos <= buf.len()
//@ outside: a leaked hash state is NOT visible in this instance (with a 2-byte window a stale byte sits above the bits the split mask reads - measured on seed C06-1; c06_rabin_pair_w8 covers it); the production 64-byte window (c06_rabin_pair_*, experimental); equality with the mathematical fingerprint; other shapes
#[kani::proof]
#[kani::unwind(30)]
#[kani::stub(std::backtrace::Backtrace::capture, crate::error::verif_harness::stub_backtrace_capture)]
#[kani::stub(std::io::Read::read_to_end, crate::chunker::rabin::verif_harness::ReadToEndModel::read_to_end)]
pub(crate) fn c06_rabin_pair_small() { pair_check_w::<0, 24, 3, 21, 24, 0>(1, 16, 4, 20); }

//@ harness: c06_rabin_pair_w8
//@ prop: C06
//@ tier: quick
//@ timeout: 2400
//@ mem: 10
//@ unwindset: calculate_out_table#0=10; calculate_out_table#1=258; calculate_mod_table#0=258; modulo#0=64
//@ kernel: as c06_rabin_pair_small with an 8-byte window
//@ bound: polynomial 0x3DA3358B4DC173, Rabin64 with an 8-byte window (the smallest for which a stale byte is reduced modulo the polynomial into the bits the split mask reads), (avg,min,max)=(16,8,20); two iterators over the same 12 symbolic remaining bytes: A = empty look-ahead + 12 stream bytes, fresh hash state; B = 3 look-ahead + 9 stream bytes after a full window (8) of symbolic stale bytes was slid through its hash; full reads
//@ oracle: as c06_rabin_pair_small
//@ stub: std::io::Read::read_to_end -> contract model
//@ assume: ChunkIter invariant between calls: pos <= buf.len()
//@ outside: as c06_rabin_pair_small; more than 12 remaining bytes (c06_rabin_pair_w8_long, thorough)
#[kani::proof]
#[kani::unwind(30)]
#[kani::stub(std::backtrace::Backtrace::capture, crate::error::verif_harness::stub_backtrace_capture)]
#[kani::stub(std::io::Read::read_to_end, crate::chunker::rabin::verif_harness::ReadToEndModel::read_to_end)]
pub(crate) fn c06_rabin_pair_w8() { pair_check_wd::<0, 12, 3, 9, 12, 0>(3, 8, 16, 8, 20); }

//@ harness: c06_rabin_pair_w8_long
//@ prop: C06
//@ tier: thorough
//@ timeout: 3600
//@ mem: 16
//@ unwindset: calculate_out_table#0=10; calculate_out_table#1=258; calculate_mod_table#0=258; modulo#0=64
//@ kernel: as c06_rabin_pair_w8
//@ bound: as c06_rabin_pair_w8 with 22 remaining bytes (more than max size: forced cut and content-defined cuts up to max), A = 0 + 22, B = 3 + 19
//@ oracle: as c06_rabin_pair_small
//@ stub: std::io::Read::read_to_end -> contract model
//@ assume: ChunkIter invariant between calls: pos <= buf.len()
//@ outside: as c06_rabin_pair_small
#[kani::proof]
#[kani::unwind(30)]
#[kani::stub(std::backtrace::Backtrace::capture, crate::error::verif_harness::stub_backtrace_capture)]
#[kani::stub(std::io::Read::read_to_end, crate::chunker::rabin::verif_harness::ReadToEndModel::read_to_end)]
pub(crate) fn c06_rabin_pair_w8_long() { pair_check_wd::<0, 22, 3, 19, 22, 0>(3, 8, 16, 8, 20); }

//@ harness: c06_rabin_pair_small_tail
//@ prop: C06
//@ tier: thorough
//@ timeout: 2400
//@ mem: 20
//@ unwindset: calculate_out_table#0=4; calculate_out_table#1=258; calculate_mod_table#0=258; modulo#0=64
//@ kernel: as c06_rabin_pair_small
//@ bound: as c06_rabin_pair_small with only 3 remaining bytes (below the minimum of 4: the final short chunk), A = 0 + 3, B = 2 + 1
//@ oracle: as c06_rabin_pair_small
//@ stub: std::io::Read::read_to_end -> contract model
//@ assume: ChunkIter invariant between calls: pos <= buf.len()
//@ outside: as c06_rabin_pair_small

#[kani::proof]
#[kani::unwind(30)]
#[kani::stub(std::backtrace::Backtrace::capture, crate::error::verif_harness::stub_backtrace_capture)]
#[kani::stub(std::io::Read::read_to_end, crate::chunker::rabin::verif_harness::ReadToEndModel::read_to_end)]
pub(crate) fn c06_rabin_pair_small_tail() { pair_check_w::<0, 3, 2, 1, 3, 0>(1, 16, 4, 20); }

// ---- first chunk, production window, std's real read_to_end, unbounded symbolic read fragmentation ----
pub(crate) struct ProbeReader<const N: usize> { pub data: [u8; N], pub len: usize, pub pos: usize }
impl<const N: usize> Read for ProbeReader<N> {
    fn read(&mut self, buf: &mut [u8]) -> io::Result<usize> {
        let avail = self.len - self.pos;
        if avail == 0 || buf.is_empty() { return Ok(0); }
        let max = avail.min(buf.len());
        let n: usize = kani::any();
        kani::assume(n >= 1 && n <= max);
        buf[..n].copy_from_slice(&self.data[self.pos..self.pos + n]);
        self.pos += n;
        Ok(n)
    }
}

//@ harness: c06_rabin_first_chunk_frag
//@ prop: C06
//@ tier: experimental
//@ timeout: 1500
//@ mem: 24
//@ unwindset: calculate_out_table#0=64; calculate_out_table#1=258; calculate_mod_table#0=258; modulo#0=64
//@ kernel: chunker::rabin::ChunkIter::{new,next} with the production 64-byte window, through std's real Read::read_to_end / Take
//@ bound: polynomial 0x3DA3358B4DC173, (avg,min,max)=(64,64,72); first chunk of a stream of symbolic length 0..=76 with symbolic bytes; EVERY read returns a symbolic count 1..=min(avail, buf) (unbounded symbolic fragmentation); size_hint 0; unwind 80
//@ oracle: None iff the stream is empty; otherwise the chunk is non-empty, <= max, >= min unless it is the whole (short) stream, and equals the first bytes of the stream (lossless); a cut before max with data remaining only where the implementation's fingerprint has its low bits zero
//@ outside: which position is cut (see c06_rabin_pair_* / c06_rabin_step_*, experimental)
#[kani::proof]
#[kani::unwind(80)]
#[kani::stub(std::backtrace::Backtrace::capture, crate::error::verif_harness::stub_backtrace_capture)]
pub(crate) fn c06_rabin_first_chunk_frag() {
    const N: usize = 76;
    let rabin = Rabin64::new_with_polynom(6, &POLY);
    let data: [u8; N] = kani::any();
    let len: usize = kani::any();
    kani::assume(len <= N);
    let reader = ProbeReader::<N> { data, len, pos: 0 };
    let mut it = ChunkIter::new(rabin, 64, 64, 72, reader, 0).unwrap();
    match it.next() {
        None => assert!(len == 0),
        Some(Ok(v)) => {
            let c = v.len();
            assert!(c >= 1 && c <= 72 && c <= len);
            assert!(c >= 64 || c == len);
            let mut i = 0;
            while i < c { assert!(v[i] == data[i]); i += 1; }
            if c < 72 && c < len { assert!(it.rabin.hash & 63 == 0); }
            kani::cover!(c < 72 && c < len, "content-defined cut");
            kani::cover!(c == 72, "cut at max");
            kani::cover!(c < 64, "short stream");
            std::mem::forget(v);
        }
        Some(Err(e)) => { std::mem::forget(e); assert!(false); }
    }
    kani::cover!(len == 0, "empty stream");
    std::mem::forget(it);
}

//@ harness: c06_rabin_pair_small_frag
//@ prop: C06
//@ tier: experimental
//@ timeout: 2400
//@ mem: 30
//@ unwindset: calculate_out_table#0=4; calculate_out_table#1=258; calculate_mod_table#0=258; modulo#0=64
//@ kernel: as c06_rabin_pair_small
//@ bound: as c06_rabin_pair_small, iterator B additionally sees one short read of symbolic length at a symbolic point (measured: CBMC exceeds 20 GB after 525 s of symbolic execution - symbolic read lengths, 11.2)
//@ oracle: as c06_rabin_pair_small
//@ stub: std::io::Read::read_to_end -> contract model
#[kani::proof]
#[kani::unwind(30)]
#[kani::stub(std::backtrace::Backtrace::capture, crate::error::verif_harness::stub_backtrace_capture)]
#[kani::stub(std::io::Read::read_to_end, crate::chunker::rabin::verif_harness::ReadToEndModel::read_to_end)]
pub(crate) fn c06_rabin_pair_small_frag() { pair_check_w::<0, 24, 3, 21, 24, 1>(1, 16, 4, 20); }
