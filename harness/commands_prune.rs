#![allow(warnings, clippy::all, clippy::pedantic, clippy::nursery)]
//@ module: commands::prune
use super::*;
use crate::error::verif_harness as vh;

fn any_size_stats(cap: u64) -> SizeStats {
    let s = SizeStats { used: kani::any(), unused: kani::any(), remove: kani::any(), repack: kani::any(), repackrm: kani::any() };
    kani::assume(s.used <= cap && s.unused <= cap);
    // consistency maintained by set_todo: what is removed / repack-removed is part of unused
    kani::assume(s.remove <= s.unused && s.repackrm <= s.unused - s.remove);
    kani::assume(s.repack <= cap);
    s
}

fn any_limit() -> LimitOption {
    match kani::any::<u8>() % 3 {
        0 => LimitOption::Unlimited,
        1 => LimitOption::Size(ByteSize(kani::any())),
        _ => LimitOption::Percentage(kani::any()),
    }
}

//@ harness: c18_decide_repack_limits
//@ prop: C18
//@ tier: quick
//@ timeout: 600
//@ kernel: PrunePlan::decide_repack (limit arithmetic, empty candidate list), SizeStats::{total,unused_after_prune}, PruneStats::size_sum, PackSizer::pack_size
//@ bound: max_unused and max_repack any LimitOption value (Percentage any u64, Size any u64, Unlimited); per-type size statistics symbolic with used/unused <= 2^50 bytes each (1 PiB per blob type); no repack candidates (no B-tree entry is created, DESIGN C02 obstacle); integer_sqrt unwind 34
//@ oracle: no panic: no division by zero, no arithmetic overflow for any accepted limit value (0%, 100%, >100%, zero sizes)
//@ assume: repository sizes are at most 1 PiB per blob type, so p*size cannot overflow u64 for p <= 100; statistics satisfy remove + repackrm <= unused (maintained by set_todo)
//@ outside: the per-pack decisions (BTreeMap-keyed, DESIGN C02)
#[kani::proof]
#[kani::unwind(34)]
pub(crate) fn c18_decide_repack_limits() {
    let mut plan = PrunePlan {
        time: Zoned::default(),
        used_ids: BTreeMap::new(),
        existing_packs: BTreeMap::new(),
        repack_candidates: Vec::new(),
        index_files: Vec::new(),
        stats: PruneStats::default(),
    };
    let cap = 1u64 << 50;
    plan.stats.size[BlobType::Data] = any_size_stats(cap);
    plan.stats.size[BlobType::Tree] = any_size_stats(cap);
    let max_repack = any_limit();
    let max_unused = any_limit();
    let sizer = PackSizer::fixed(kani::any());
    let pack_sizer = BlobTypeMap::from_array([sizer, sizer]);
    let ru: bool = kani::any();
    let nr: bool = kani::any();
    if let LimitOption::Percentage(p) = max_unused { kani::cover!(p == 100 && !ru, "max-unused 100%"); kani::cover!(p > 100 && !ru, "max-unused > 100%"); }
    plan.decide_repack(&max_repack, &max_unused, ru, nr, &pack_sizer);
    kani::cover!(true, "decide_repack returned");
    std::mem::forget(plan);
}

/// an empty plan (no index files, no packs): the B-tree maps stay empty
pub(crate) fn empty_plan() -> PrunePlan {
    PrunePlan { time: Zoned::default(), used_ids: BTreeMap::new(), existing_packs: BTreeMap::new(), repack_candidates: Vec::new(), index_files: Vec::new(), stats: PruneStats::default() }
}
