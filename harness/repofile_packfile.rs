#![allow(warnings, clippy::all, clippy::pedantic, clippy::nursery)]
//@ module: repofile::packfile
use super::*;
use crate::error::verif_harness as vh;
use crate::blob::BlobId;

/// stub for PackHeaderLength::to_binary (binrw): arbitrary 4 bytes
pub(crate) fn stub_len_to_binary(_s: PackHeaderLength) -> PackFileResult<Vec<u8>> {
    let b: [u8; 4] = kani::any();
    let mut v = Vec::with_capacity(4);
    v.push(b[0]); v.push(b[1]); v.push(b[2]); v.push(b[3]);
    Ok(v)
}

fn any_blob() -> IndexBlob {
    IndexBlob {
        id: BlobId::from(vh::mk_id(kani::any())),
        tpe: if kani::any() { BlobType::Tree } else { BlobType::Data },
        location: BlobLocation { offset: kani::any(), length: kani::any(), uncompressed_length: NonZeroU32::new(kani::any()) },
    }
}

//@ harness: c08_header_entry_mapping
//@ prop: C08
//@ tier: quick
//@ timeout: 600
//@ kernel: HeaderEntry::{from_blob, length, into_blob, into_location}, PackHeaderRef::{size, pack_size}
//@ bound: 2 arbitrary index blobs (type, id first byte, offset, length, uncompressed length all symbolic; lengths <= 2^30 so the u32 sums of a <= 4 GiB pack cannot overflow)
//@ oracle: HeaderEntry::from_blob(b).into_blob(b.offset) == b (type / compression / lengths mapping is lossless); length() is 37 / 41; size() == 32 + sum(entry lengths); pack_size() == 36 + sum(entry length + blob length)
//@ outside: the binrw byte encoding of the entries
#[kani::proof]
#[kani::unwind(36)]
pub(crate) fn c08_header_entry_mapping() {
    let b0 = any_blob();
    let b1 = any_blob();
    kani::assume(b0.location.length <= (1 << 30) && b1.location.length <= (1 << 30));
    for b in [b0, b1] {
        let e = HeaderEntry::from_blob(&b);
        assert!(e.length() == if b.location.uncompressed_length.is_some() { 41 } else { 37 });
        let back = e.into_blob(b.location.offset);
        assert!(back == b);
    }
    let blobs = [b0, b1];
    let h = PackHeaderRef(&blobs);
    let l0 = HeaderEntry::from_blob(&b0).length();
    let l1 = HeaderEntry::from_blob(&b1).length();
    assert!(h.size() == 32 + l0 + l1);
    assert!(h.pack_size() == 36 + l0 + l1 + b0.location.length + b1.location.length);
    kani::cover!(l0 != l1, "one compressed and one uncompressed entry");
}
