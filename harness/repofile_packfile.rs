#![allow(warnings, clippy::all, clippy::pedantic, clippy::nursery)]
//@ module: repofile::packfile
use super::*;
use crate::error::verif_harness as vh;
use crate::blob::BlobId;

/// stub for PackHeaderLength::to_binary (binrw): arbitrary 4 bytes
pub(crate) fn stub_len_to_binary(_s: PackHeaderLength) -> PackFileResult<Vec<u8>> {
    let b: [u8; 4] = kani::any();
    let mut v = Vec::with_capacity(4);
    v.push(b[0]); v.push(b[1]); v.push(b[2]); v.push(b[3]);
    Ok(v)
}

fn any_blob() -> IndexBlob {
    IndexBlob {
        id: BlobId::from(vh::mk_id(kani::any())),
        tpe: if kani::any() { BlobType::Tree } else { BlobType::Data },
        location: BlobLocation { offset: kani::any(), length: kani::any(), uncompressed_length: NonZeroU32::new(kani::any()) },
    }
}

//@ harness: c08_header_entry_mapping
//@ prop: C08
//@ tier: quick
//@ timeout: 600
//@ kernel: HeaderEntry::{from_blob, length, into_blob, into_location}, PackHeaderRef::{size, pack_size}
//@ bound: 2 arbitrary index blobs (type, id first byte, offset, length, uncompressed length all symbolic; lengths <= 2^30 so the u32 sums of a <= 4 GiB pack cannot overflow)
//@ oracle: HeaderEntry::from_blob(b).into_blob(b.offset) == b (type / compression / lengths mapping is lossless); length() is 37 / 41; size() == 32 + sum(entry lengths); pack_size() == 36 + sum(entry length + blob length)
//@ outside: the binrw byte encoding of the entries
#[kani::proof]
#[kani::unwind(36)]
pub(crate) fn c08_header_entry_mapping() {
    let b0 = any_blob();
    let b1 = any_blob();
    kani::assume(b0.location.length <= (1 << 30) && b1.location.length <= (1 << 30));
    for b in [b0, b1] {
        let e = HeaderEntry::from_blob(&b);
        assert!(e.length() == if b.location.uncompressed_length.is_some() { 41 } else { 37 });
        let back = e.into_blob(b.location.offset);
        assert!(back == b);
    }
    let blobs = [b0, b1];
    let h = PackHeaderRef(&blobs);
    let l0 = HeaderEntry::from_blob(&b0).length();
    let l1 = HeaderEntry::from_blob(&b1).length();
    assert!(h.size() == 32 + l0 + l1);
    assert!(h.pack_size() == 36 + l0 + l1 + b0.location.length + b1.location.length);
    kani::cover!(l0 != l1, "one compressed and one uncompressed entry");
}

// ---------------------------------------------------------------------------
// PackHeader::from_file: which bytes of a pack are read back as its trailer, for every size hint
// ---------------------------------------------------------------------------
use std::sync::atomic::{AtomicU8, Ordering::SeqCst};
use std::sync::Arc;
use crate::backend::decrypt::{DecryptBackend, DecryptReadBackend};
use crate::backend::{FileType, WriteBackend};

const FF_DATA: usize = 8;
const FF_PLAIN: usize = 37; // one uncompressed entry
const FF_HDR: usize = FF_PLAIN + 32;
const FF_PACK: usize = FF_DATA + FF_HDR + 4;

const fn ff_pack() -> [u8; FF_PACK] {
    let mut p = [0u8; FF_PACK];
    let mut i = 0;
    while i < FF_DATA { p[i] = 0xD0 + i as u8; i += 1; }
    p[FF_DATA] = 7; // nonce byte of the model AEAD frame, bytes 1..16 of the nonce are 0
    let mut j = 0;
    while j < FF_PLAIN { p[FF_DATA + 16 + j] = (0x80 + j as u8) ^ 0x5a; j += 1; }
    let mut k = 0;
    while k < 16 { p[FF_DATA + 16 + FF_PLAIN + k] = 0xA5; k += 1; }
    p[FF_PACK - 4] = FF_HDR as u8; // little-endian u32 length field
    p
}
static FF_BYTES: [u8; FF_PACK] = ff_pack();
/// 0 = from_binary not called, 1 = called with exactly the decrypted trailer, 2 = called with anything else
static FF_SEEN: AtomicU8 = AtomicU8::new(0);

/// stub for PackHeader::from_binary (binrw is outside the claim): records whether it was handed exactly the
/// plaintext of the pack's trailer and answers with the one-entry header that trailer stands for
pub(crate) fn stub_header_from_binary(pack: &[u8]) -> PackFileResult<PackHeader> {
    let mut ok = pack.len() == FF_PLAIN;
    let mut j = 0;
    while j < FF_PLAIN { if ok && pack[j] != 0x80 + j as u8 { ok = false; } j += 1; }
    FF_SEEN.store(if ok { 1 } else { 2 }, SeqCst);
    Ok(PackHeader(vec![IndexBlob {
        id: BlobId::from(vh::mk_id(3)),
        tpe: BlobType::Data,
        location: BlobLocation { offset: 0, length: FF_DATA as u32, uncompressed_length: None },
    }]))
}
/// stub for PackHeaderLength::from_binary (binrw `u32` little endian)
pub(crate) fn stub_len_from_binary(data: &[u8]) -> PackFileResult<PackHeaderLength> {
    assert!(data.len() == 4, "the length field handed to the decoder is not the 4 trailing bytes");
    Ok(PackHeaderLength(u32::from_le_bytes([data[0], data[1], data[2], data[3]])))
}

//@ harness: c08_from_file_reads_trailer
//@ prop: C08
//@ tier: quick
//@ timeout: 900
//@ mem: 12
//@ kernel: PackHeader::from_file (offset / length arithmetic of the trailer read, re-read branch, size checks), DecryptBackend::{read_partial, decrypt}
//@ bound: one well-formed 81-byte pack (8 data bytes, 69-byte encrypted one-entry header, 4-byte length) served by a mock store; the size hint is a symbolic choice among None, too small (0, 10, 68), exact (69), too large (70, 77 = pack size - 4)
//@ oracle: from_file succeeds for every hint and hands exactly the decrypted trailer (the 37 plaintext bytes) to the header decoder, the 4 trailing bytes to the length decoder; it returns the header's blob list
//@ stub: PackHeader::from_binary / PackHeaderLength::from_binary (binrw decoding: outside) -> recording models; CryptoKey = model AEAD frame (16-byte nonce, payload ^ 0x5a, 16-byte tag; malformed frame => Err); RusticError::{new,attach_context,attach_source}, ToString, fmt::format (error text)
//@ assume: hint + 4 <= pack size (hints come from the index entry of that pack; a hint larger than the file is damage, not a pack the library wrote)
//@ outside: damaged / truncated packs (C05), the entry encoding itself, repair_index's use of the result
#[kani::proof]
#[kani::unwind(90)]
#[kani::stub(std::backtrace::Backtrace::capture, crate::error::verif_harness::stub_backtrace_capture)]
#[kani::stub(alloc::fmt::format, crate::error::verif_harness::stub_format)]
#[kani::stub(crate::error::RusticError::new, crate::error::verif_harness::stub_rustic_new)]
#[kani::stub(crate::error::RusticError::attach_context, crate::error::verif_harness::stub_attach_context)]
#[kani::stub(crate::error::RusticError::attach_source, crate::error::verif_harness::stub_attach_source)]
#[kani::stub(alloc::string::ToString::to_string, crate::error::verif_harness::ToStringModel::to_string)]
#[kani::stub(crate::repofile::packfile::PackHeader::from_binary, stub_header_from_binary)]
#[kani::stub(crate::repofile::packfile::PackHeaderLength::from_binary, stub_len_from_binary)]
pub(crate) fn c08_from_file_reads_trailer() {
    let rec = Arc::new(vh::RecBe::new(&FF_BYTES));
    let be = DecryptBackend::new(rec.clone() as Arc<dyn WriteBackend>, vh::ModelKey);
    let hint = match kani::any::<u8>() % 7 {
        0 => None, 1 => Some(0u32), 2 => Some(10), 3 => Some(68), 4 => Some(FF_HDR as u32), 5 => Some(70), _ => Some(FF_PACK as u32 - 4),
    };
    let r = PackHeader::from_file(&be, PackId::from(vh::mk_id(9)), hint, FF_PACK as u32);
    let ok = r.is_ok();
    assert!(ok, "the trailer of a well-formed pack could not be read back");
    assert!(FF_SEEN.load(SeqCst) == 1, "the header decoder was handed other bytes than the decrypted trailer");
    if let Ok(h) = &r { assert!(h.0.len() == 1 && h.0[0].location.length == FF_DATA as u32); }
    kani::cover!(hint.is_none(), "no size hint (pack not in any index): re-read branch");
    kani::cover!(hint == Some(70), "over-guessed hint: header cut out of the first read");
    std::mem::forget(r); std::mem::forget(be); std::mem::forget(rec);
}

/// reference decoder standing in for PackHeader::from_binary (binrw) in the C05 harness: exactly two uncompressed
/// entries `[type: 0 = data / 1 = tree][length: u32 LE][id: 32 bytes]`, offsets cumulative from 0
pub(crate) fn stub_header_decode2(pack: &[u8]) -> PackFileResult<PackHeader> {
    assert!(pack.len() == 74, "the header decoder was handed a region that is not the decrypted trailer");
    let e0 = ref_entry(pack, 0, 0);
    let e1 = ref_entry(pack, 37, e0.location.length);
    Ok(PackHeader(vec![e0, e1]))
}
pub(crate) fn ref_entry(p: &[u8], at: usize, offset: u32) -> IndexBlob {
    let mut id = [0u8; 32];
    let mut k = 0;
    while k < 32 { id[k] = p[at + 5 + k]; k += 1; }
    IndexBlob {
        id: BlobId::from(crate::id::Id::new(id)),
        tpe: if p[at] == 0 { BlobType::Data } else { BlobType::Tree },
        location: BlobLocation { offset, length: u32::from_le_bytes([p[at + 1], p[at + 2], p[at + 3], p[at + 4]]), uncompressed_length: None },
    }
}

/// as stub_header_decode2 for one uncompressed entry followed by one compressed entry
/// `[type: 2 = data / 3 = tree][length: u32 LE][uncompressed length: u32 LE][id: 32 bytes]`
pub(crate) fn stub_header_decode_uc(pack: &[u8]) -> PackFileResult<PackHeader> {
    assert!(pack.len() == 78, "the header decoder was handed a region that is not the decrypted trailer");
    let e0 = ref_entry(pack, 0, 0);
    let e1 = ref_entry_comp(pack, 37, e0.location.length);
    Ok(PackHeader(vec![e0, e1]))
}
pub(crate) fn ref_entry_comp(p: &[u8], at: usize, offset: u32) -> IndexBlob {
    let mut id = [0u8; 32];
    let mut k = 0;
    while k < 32 { id[k] = p[at + 9 + k]; k += 1; }
    IndexBlob {
        id: BlobId::from(crate::id::Id::new(id)),
        tpe: if p[at] == 2 { BlobType::Data } else { BlobType::Tree },
        location: BlobLocation {
            offset,
            length: u32::from_le_bytes([p[at + 1], p[at + 2], p[at + 3], p[at + 4]]),
            uncompressed_length: NonZeroU32::new(u32::from_le_bytes([p[at + 5], p[at + 6], p[at + 7], p[at + 8]])),
        },
    }
}
