#![allow(warnings, clippy::all, clippy::pedantic, clippy::nursery)]
//@ module: backend::node
use super::*;
use std::os::unix::ffi::OsStrExt;

fn roundtrip<const N: usize>() {
    let raw: [u8; N] = kani::any();
    let name = OsStr::from_bytes(&raw);
    let escaped = escape_filename(name);
    let back = unescape_filename(&escaped);
    match back {
        Ok(b) => {
            let bb = b.as_bytes();
            assert!(bb.len() == N);
            let mut i = 0;
            while i < N { assert!(bb[i] == raw[i]); i += 1; }
            kani::cover!(true, "round trip");
            std::mem::forget(b);
        }
        Err(e) => { std::mem::forget(e); assert!(false, "escaped name does not unescape"); }
    }
    std::mem::forget(escaped);
}

//@ harness: c01_filename_escape_roundtrip_1
//@ prop: C01
//@ tier: experimental
//@ timeout: 1500
//@ mem: 16
//@ kernel: backend::node::{escape_filename, unescape_filename} (unix)
//@ bound: every 1-byte file name (all 256 byte values: control characters, backslash, quote, invalid UTF-8)
//@ oracle: unescape_filename(escape_filename(name)) == name
#[kani::proof]
#[kani::unwind(12)]
#[kani::stub(std::backtrace::Backtrace::capture, crate::error::verif_harness::stub_backtrace_capture)]
pub(crate) fn c01_filename_escape_roundtrip_1() { roundtrip::<1>(); }
