#![allow(warnings, clippy::all, clippy::pedantic, clippy::nursery)]
//@ module: repository
use super::*;
use crate::error::verif_harness as vh;
use crate::error::verif_harness::MockBe;
use crate::backend::decrypt::DecryptBackend;
use crate::crypto::aespoly1305::Key;
use crate::crypto::CryptoKey;
use crate::progress::NoProgressBars;
use crate::repofile::snapshotfile::SnapshotId;
use std::sync::atomic::{AtomicBool, AtomicU8, Ordering::SeqCst};

static SERVE: [u8; 0] = [];

/// a Repository<OpenStatus> by struct literal over a counting mock store (no backend I/O to open it)
pub(crate) fn mock_repo(store: Arc<MockBe>, config: ConfigFile) -> Repository<OpenStatus> {
    let dynbe: Arc<dyn WriteBackend> = store;
    Repository {
        name: String::new(),
        be: dynbe.clone(),
        be_hot: None,
        be_cold: dynbe.clone(),
        opts: RepositoryOptions::default(),
        pb: Arc::new(NoProgressBars {}),
        status: OpenStatus { cache: None, dbe: DecryptBackend::new(dynbe, Key::default()), config, key_id: None },
    }
}

// ---- cuts: callees behind the guards reach rayon/threads, which Kani cannot compile (DESIGN 1.3a) ----
static CUT_REACHED: AtomicBool = AtomicBool::new(false);
static SAVE_CONFIG_CALLS: AtomicU8 = AtomicU8::new(0);

/// same shape as DecryptWriteBackend::{delete_list, save_list} for Kani's trait-method stubbing
pub(crate) trait CutWrite: WriteBackend {
    fn delete_list<'a, ID: crate::repofile::RepoId, I: ExactSizeIterator<Item = &'a ID> + Send>(&self, _cacheable: bool, _list: I, _p: Progress) -> RusticResult<()> {
        CUT_REACHED.store(true, SeqCst);
        Ok(())
    }
}
impl<T: WriteBackend> CutWrite for T {}

fn cut_save_config<S, K: CryptoKey>(_repo: &Repository<S>, _new_config: ConfigFile, _key: K) -> RusticResult<()> {
    SAVE_CONFIG_CALLS.fetch_add(1, SeqCst);
    Ok(())
}

//@ harness: c15_append_only_delete_snapshots
//@ prop: C15
//@ tier: quick
//@ timeout: 900
//@ mem: 10
//@ unwindset: IterMut<'_, u8> as std::iter::Iterator>::fold.*#0=66
//@ kernel: Repository::delete_snapshots (guard), Repository::config
//@ bound: one call with 1 snapshot id (symbolic first byte) on a repository whose stored config has append_only symbolic (None / Some(false) / Some(true)), all other config fields default
//@ oracle: append_only == Some(true) => Err and the store saw no write/remove/create and the deletion routine was not entered; otherwise the deletion routine is entered
//@ stub: DecryptWriteBackend::delete_list -> recording cut (its body is a rayon par_bridge loop Kani cannot compile); Backtrace::capture
//@ outside: what delete_list removes (threaded)
#[kani::proof]
#[kani::unwind(40)]
#[kani::stub(std::backtrace::Backtrace::capture, crate::error::verif_harness::stub_backtrace_capture)]
#[kani::stub(crate::backend::decrypt::DecryptWriteBackend::delete_list, CutWrite::delete_list)]
#[kani::stub(crate::error::RusticError::new, crate::error::verif_harness::stub_rustic_new)]
#[kani::stub(crate::error::RusticError::attach_context, crate::error::verif_harness::stub_attach_context)]
#[kani::stub(crate::error::RusticError::attach_source, crate::error::verif_harness::stub_attach_source)]
pub(crate) fn c15_append_only_delete_snapshots() {
    let store = Arc::new(MockBe::new(true, 0, &SERVE));
    let mut config = ConfigFile::default();
    config.append_only = if kani::any() { Some(kani::any()) } else { None };
    let ao = config.append_only == Some(true);
    let repo = mock_repo(store.clone(), config);
    let ids = [SnapshotId::from(vh::mk_id(kani::any()))];
    let r = repo.delete_snapshots(&ids);
    if ao {
        assert!(r.is_err());
        assert!(store.mutations() == 0);
        assert!(!CUT_REACHED.load(SeqCst));
        kani::cover!(true, "append-only delete refused");
    } else {
        assert!(r.is_ok() && CUT_REACHED.load(SeqCst));
    }
    std::mem::forget(r); std::mem::forget(repo); std::mem::forget(store);
}

//@ harness: c15_c18_apply_config_guard
//@ prop: C15 C18
//@ tier: quick
//@ timeout: 1200
//@ mem: 12
//@ unwindset: ^memcmp#0=34; _fmt_inner#0=24; IterMut<'_, u8> as std::iter::Iterator>::fold.*#0=66
//@ kernel: commands::config::apply_config (guard + clone-then-apply structure), ConfigOptions::apply, Repository::{config, set_config}
//@ bound: stored config and options fully symbolic as in c18_config_apply_frame; one call
//@ oracle: append-only repository and the change does not switch append-only off => Err; Err (refused for any reason) => nothing is saved and the in-memory config is exactly the old one; Ok(false) => nothing saved, config unchanged; Ok(true) => exactly one save and the in-memory config is the old one with the options applied
//@ stub: commands::config::save_config -> counting stub (its real body encrypts with the AES key and thread-local RNG and crashes the Kani compiler); construct_size_too_large_error; Backtrace::capture; fmt::format; zstd::compression_level_range
#[kani::proof]
#[kani::unwind(4)]
#[kani::stub(std::backtrace::Backtrace::capture, crate::error::verif_harness::stub_backtrace_capture)]
#[kani::stub(zstd::compression_level_range, crate::error::verif_harness::stub_level_range)]
#[kani::stub(alloc::fmt::format, crate::error::verif_harness::stub_format)]
#[kani::stub(crate::commands::config::save_config, cut_save_config)]
#[kani::stub(crate::commands::config::construct_size_too_large_error, crate::commands::config::verif_harness::stub_size_too_large)]
#[kani::stub(crate::error::RusticError::new, crate::error::verif_harness::stub_rustic_new)]
#[kani::stub(crate::error::RusticError::attach_context, crate::error::verif_harness::stub_attach_context)]
#[kani::stub(crate::error::RusticError::attach_source, crate::error::verif_harness::stub_attach_source)]
pub(crate) fn c15_c18_apply_config_guard() {
    let store = Arc::new(MockBe::new(true, 0, &SERVE));
    let config = crate::commands::config::verif_harness::any_config();
    let old = config.clone();
    let mut repo = mock_repo(store.clone(), config);
    let opts = crate::commands::config::verif_harness::any_options();
    let r = repo.apply_config(&opts);
    let saves = SAVE_CONFIG_CALLS.load(SeqCst);
    assert!(store.mutations() == 0);
    match &r {
        Err(_) => {
            assert!(saves == 0);
            assert!(repo.config() == &old);
            kani::cover!(old.append_only == Some(true), "refused on an append-only repository");
            kani::cover!(old.append_only != Some(true), "refused for an invalid value");
        }
        Ok(false) => { assert!(saves == 0); assert!(repo.config() == &old); }
        Ok(true) => {
            assert!(saves == 1);
            assert!(repo.config() != &old);
            // allowed on an append-only repository only when append-only is switched off by this change
            assert!(old.append_only != Some(true) || opts.set_append_only == Some(false));
            let mut expect = old.clone();
            let e = opts.apply(&mut expect);
            assert!(e.is_ok() && repo.config() == &expect);
            std::mem::forget(e);
            kani::cover!(old.append_only == Some(true), "append-only switched off");
        }
    }
    std::mem::forget(r); std::mem::forget(repo); std::mem::forget(store);
}

// NOTE (measured): a harness for prune_repository's append-only guard compiles only if *every* thread-reaching callee
// behind the guard is cut.  Repository::warm_up_wait can be stubbed (inherent-method-shaped stub), but the body
// also contains `.into_par_iter()` closures and BlobCopier::new (Packer threads) which cannot be stubbed away:
// kani-compiler crashes (intrinsics.rs:243, catch_unwind).  The prune / repair_index / repair_snapshots / rewrite
// guards are therefore outside the claim; delete_snapshots and apply_config are covered above.
