#![allow(warnings, clippy::all, clippy::pedantic, clippy::nursery)]
//@ module: commands::check
use super::*;
use std::sync::Arc;
use crate::error::verif_harness as vh;
use crate::backend::decrypt::{DecryptBackend, verif_harness::FlagKey};
use crate::backend::WriteBackend;
use crate::blob::BlobLocation;
use crate::repofile::indexfile::{IndexBlob, IndexPack};
use crate::repofile::packfile::verif_harness as pvh;

// ---------------------------------------------------------------------------
// C05, per-pack kernel: `check_pack` reports nothing  =>  what restore will read through the index is intact
// ---------------------------------------------------------------------------
const PAYLOAD: usize = 2;
const BLOB: usize = PAYLOAD + 32;
const PACK_U: usize = 2 * BLOB + (37 + 37 + 32) + 4;
const PACK_C: usize = 2 * BLOB + (37 + 41 + 32) + 4;

fn any_id2() -> Id { let mut r = [0u8; 32]; r[0] = kani::any(); r[1] = kani::any(); Id::new(r) }

/// COMP: the second blob is a compressed one (zstd model: 0xFD || data), its recorded uncompressed length symbolic
fn check_pack_case<const REJECT: bool, const COMP: bool, const PACK: usize>() {
    let hdr: usize = PACK - 2 * BLOB - 4;
    let plain: usize = hdr - 32;
    let ids = [any_id2(), any_id2()];
    let tpe = if kani::any() { BlobType::Tree } else { BlobType::Data };
    let pack_id = any_id2();
    let ul: u32 = kani::any();
    let ulen = if COMP { kani::assume(ul != 0); std::num::NonZeroU32::new(ul) } else { None };
    let index_pack = IndexPack {
        id: PackId::from(pack_id),
        // deliberately listed out of offset order: check_pack sorts
        blobs: vec![
            IndexBlob { id: BlobId::from(ids[1]), tpe, location: BlobLocation { offset: BLOB as u32, length: BLOB as u32, uncompressed_length: ulen } },
            IndexBlob { id: BlobId::from(ids[0]), tpe, location: BlobLocation { offset: 0, length: BLOB as u32, uncompressed_length: None } },
        ],
        time: None,
        size: None,
    };
    let bytes: [u8; PACK] = kani::any();
    // bound: the kinds of the two trailer entries (uncompressed: type byte 0/1, compressed: 2/3) are the shape's
    kani::assume(bytes[2 * BLOB + 16] <= 1);
    if COMP {
        kani::assume(bytes[2 * BLOB + 16 + 37] == 2 || bytes[2 * BLOB + 16 + 37] == 3);
        // an authentic compressed blob is a well-formed compressed stream (check_pack unwraps the decoder's result)
        kani::assume(bytes[BLOB + 16] == 0xFD);
    } else {
        kani::assume(bytes[2 * BLOB + 16 + 37] <= 1);
    }
    let data = Bytes::copy_from_slice(&bytes);
    let rec = Arc::new(vh::NullBe::new());
    let be = DecryptBackend::new(rec.clone() as Arc<dyn WriteBackend>, FlagKey::<REJECT>);
    let p = Progress::hidden();
    let collector = CheckResultsCollector::default();
    let r = check_pack(&be, index_pack, data, &p, &collector);
    let n_findings = collector.findings.lock().unwrap().len();
    let clean = r.is_ok() && n_findings == 0;
    if clean {
        assert!(!REJECT, "a pack whose contents do not decrypt passed the check");
        // the file is the one the index names
        assert!(vh::stub_hash(&bytes) == pack_id);
        // the trailer length and the trailer agree with the index
        assert!(u32::from_le_bytes([bytes[PACK - 4], bytes[PACK - 3], bytes[PACK - 2], bytes[PACK - 1]]) == hdr as u32);
        let t = &bytes[2 * BLOB + 16..2 * BLOB + 16 + plain];
        let h0 = pvh::ref_entry(t, 0, 0);
        let h1 = if COMP { pvh::ref_entry_comp(t, 37, BLOB as u32) } else { pvh::ref_entry(t, 37, BLOB as u32) };
        assert!(h0.location.length == BLOB as u32 && h1.location.length == BLOB as u32);
        assert!(h0.tpe == tpe && h1.tpe == tpe && *h0.id == ids[0] && *h1.id == ids[1]);
        assert!(h1.location.uncompressed_length == ulen);
        // every blob, read where the index says it is (as restore does), has the content its id names
        assert!(vh::stub_hash(&bytes[16..16 + PAYLOAD]) == ids[0]);
        if COMP {
            // restore decompresses the payload behind the 0xFD marker and insists on the recorded length
            assert!(ul as usize == PAYLOAD - 1);
            assert!(vh::stub_hash(&bytes[BLOB + 17..BLOB + 16 + PAYLOAD]) == ids[1]);
        } else {
            assert!(vh::stub_hash(&bytes[BLOB + 16..BLOB + 16 + PAYLOAD]) == ids[1]);
        }
    }
    c05_witness(REJECT, clean, r.is_ok(), r.is_err(), n_findings);
    std::mem::forget(r); std::mem::forget(collector); std::mem::forget(be); std::mem::forget(rec); std::mem::forget(p);
}
#[inline(never)]
fn c05_witness(reject: bool, clean: bool, ok: bool, err: bool, n_findings: usize) {
    kani::cover!(reject || clean, "a clean pack exists (accepting key)");
    kani::cover!(reject || (ok && n_findings == 1), "a finding is reported (accepting key)");
    kani::cover!(!reject || err, "rejecting key: error returned");
}

//@ harness: c05_check_pack_clean_means_intact
//@ prop: C05
//@ tier: quick
//@ timeout: 3000
//@ mem: 20
//@ unwindset: hasher.*hash=190; stub_hash=190; decrypt_data=80
//@ kernel: commands::check::check_pack (size / pack-hash / trailer-length / trailer-vs-index comparison, per-blob decrypt + hash), CheckResultsCollector::add_error, PackHeaderRef::{from_index_pack,size}, IndexPack::pack_size
//@ bound: one pack file of 178 symbolic bytes checked against an index entry of two uncompressed blobs of 34 bytes (2 payload bytes each) with symbolic ids (2 significant bytes), symbolic pack id, symbolic common blob type; trailer entries restricted to the uncompressed kinds; AEAD verdict: accepts every frame (this harness) / rejects (c05_check_pack_rejecting_key)
//@ oracle: if check_pack returns Ok and records no finding then: hash(file) is the indexed pack id, the length field is the header size computed from the index, the decrypted trailer decodes (independent reference decoder) to exactly the indexed blobs, and the bytes restore would read for each blob through the index (offset, length) decrypt to content whose hash is the blob id
//@ stub: crypto::hasher::hash -> H' (position/length-sensitive checksum); PackHeader::from_binary -> reference decoder for two uncompressed entries (binrw outside); PackHeaderLength::from_binary -> u32 LE; CryptoKey = FlagKey (verdict is a harness constant; strips the 16+16 framing); RusticError::*, ToString, fmt::format (error text); Backtrace::capture
//@ assume: the AEAD rejects whatever it should (C04: strength outside); SHA-256 collision resistance (H' stands for it)
//@ outside: compressed blobs (zstd), packs of other shapes, which packs are selected for reading (check_trees / read-data subsets), index-vs-listing comparison (B-trees), tree walk
#[kani::proof]
#[kani::unwind(40)]
#[kani::stub(std::backtrace::Backtrace::capture, crate::error::verif_harness::stub_backtrace_capture)]
#[kani::stub(alloc::fmt::format, crate::error::verif_harness::stub_format)]
#[kani::stub(crate::error::RusticError::new, crate::error::verif_harness::stub_rustic_new)]
#[kani::stub(crate::error::RusticError::attach_context, crate::error::verif_harness::stub_attach_context)]
#[kani::stub(crate::error::RusticError::attach_source, crate::error::verif_harness::stub_attach_source)]
#[kani::stub(alloc::string::ToString::to_string, crate::error::verif_harness::ToStringModel::to_string)]
#[kani::stub(crate::crypto::hasher::hash, crate::error::verif_harness::stub_hash)]
#[kani::stub(crate::repofile::packfile::PackHeader::from_binary, crate::repofile::packfile::verif_harness::stub_header_decode2)]
#[kani::stub(crate::repofile::packfile::PackHeaderLength::from_binary, crate::repofile::packfile::verif_harness::stub_len_from_binary)]
pub(crate) fn c05_check_pack_clean_means_intact() { check_pack_case::<false, false, PACK_U>(); }

//@ harness: c05_check_pack_rejecting_key
//@ prop: C05 C04
//@ tier: quick
//@ timeout: 3000
//@ mem: 16
//@ unwindset: hasher.*hash=190; stub_hash=190; decrypt_data=80
//@ kernel: as c05_check_pack_clean_means_intact
//@ bound: as c05_check_pack_clean_means_intact with a key that rejects every frame
//@ oracle: check_pack never comes back clean (Err or a finding)
//@ stub: as c05_check_pack_clean_means_intact
#[kani::proof]
#[kani::unwind(40)]
#[kani::stub(std::backtrace::Backtrace::capture, crate::error::verif_harness::stub_backtrace_capture)]
#[kani::stub(alloc::fmt::format, crate::error::verif_harness::stub_format)]
#[kani::stub(crate::error::RusticError::new, crate::error::verif_harness::stub_rustic_new)]
#[kani::stub(crate::error::RusticError::attach_context, crate::error::verif_harness::stub_attach_context)]
#[kani::stub(crate::error::RusticError::attach_source, crate::error::verif_harness::stub_attach_source)]
#[kani::stub(alloc::string::ToString::to_string, crate::error::verif_harness::ToStringModel::to_string)]
#[kani::stub(crate::crypto::hasher::hash, crate::error::verif_harness::stub_hash)]
#[kani::stub(crate::repofile::packfile::PackHeader::from_binary, crate::repofile::packfile::verif_harness::stub_header_decode2)]
#[kani::stub(crate::repofile::packfile::PackHeaderLength::from_binary, crate::repofile::packfile::verif_harness::stub_len_from_binary)]
pub(crate) fn c05_check_pack_rejecting_key() { check_pack_case::<true, false, PACK_U>(); }

//@ harness: c05_check_pack_compressed_blob
//@ prop: C05
//@ tier: thorough
//@ timeout: 3600
//@ mem: 22
//@ unwindset: hasher.*hash=190; stub_hash=190; decrypt_data=84
//@ kernel: as c05_check_pack_clean_means_intact, plus the compressed-blob branch (decode + recorded-length comparison)
//@ bound: as c05_check_pack_clean_means_intact with 182 symbolic bytes where the second blob is a compressed one (41-byte trailer entry; zstd model 0xFD || data; the recorded uncompressed length is symbolic)
//@ oracle: as c05_check_pack_clean_means_intact; for the compressed blob additionally: the recorded uncompressed length is the decompressed length, and the hash of the decompressed content is the blob id
//@ stub: as c05_check_pack_clean_means_intact; zstd::stream::decode_all -> 0xFD framing; reference decoder for one uncompressed + one compressed entry
//@ assume: as c05_check_pack_clean_means_intact; an authentic compressed blob is a well-formed compressed stream (check_pack unwraps the decoder's result)
//@ outside: as c05_check_pack_clean_means_intact
#[kani::proof]
#[kani::unwind(40)]
#[kani::stub(std::backtrace::Backtrace::capture, crate::error::verif_harness::stub_backtrace_capture)]
#[kani::stub(alloc::fmt::format, crate::error::verif_harness::stub_format)]
#[kani::stub(crate::error::RusticError::new, crate::error::verif_harness::stub_rustic_new)]
#[kani::stub(crate::error::RusticError::attach_context, crate::error::verif_harness::stub_attach_context)]
#[kani::stub(crate::error::RusticError::attach_source, crate::error::verif_harness::stub_attach_source)]
#[kani::stub(alloc::string::ToString::to_string, crate::error::verif_harness::ToStringModel::to_string)]
#[kani::stub(crate::crypto::hasher::hash, crate::error::verif_harness::stub_hash)]
#[kani::stub(zstd::stream::decode_all, crate::error::verif_harness::stub_decode_all)]
#[kani::stub(crate::repofile::packfile::PackHeader::from_binary, crate::repofile::packfile::verif_harness::stub_header_decode_uc)]
#[kani::stub(crate::repofile::packfile::PackHeaderLength::from_binary, crate::repofile::packfile::verif_harness::stub_len_from_binary)]
pub(crate) fn c05_check_pack_compressed_blob() { check_pack_case::<false, true, PACK_C>(); }
