#![allow(warnings, clippy::all, clippy::pedantic, clippy::nursery)]
//@ module: backend::hotcold
use super::*;
use crate::error::verif_harness as vh;
use crate::error::verif_harness::{MockBe, any_tpe, tpe_u8};
use std::sync::atomic::Ordering::SeqCst;

static HOT_DATA: [u8; 4] = [b'H', 1, 2, 3];
static COLD_DATA: [u8; 4] = [b'C', 1, 2, 3];

fn any_mock(present: bool, tag: u8, data: &'static [u8]) -> MockBe {
    let mut m = MockBe::new(present, tag, data);
    m.fail_write = kani::any();
    m.fail_remove = kani::any();
    m.lost_ack = kani::any();
    m
}

/// I: for hot-eligible files, cold-present => hot-present with equal content; non-eligible (data packs) never in hot
fn invariant(hot_eligible: bool, cold: &MockBe, hot: &MockBe) -> bool {
    let (cp, hp) = (cold.present.load(SeqCst), hot.present.load(SeqCst));
    if hot_eligible { !cp || (hp && hot.tag.load(SeqCst) == cold.tag.load(SeqCst)) } else { !hp }
}

//@ harness: c16_hotcold_step_with_faults
//@ prop: C16
//@ tier: quick
//@ timeout: 600
//@ kernel: HotColdBackend::{write_bytes, remove}
//@ bound: one write_bytes or remove with symbolic (file type != config, cacheable, content tag); pre-state of the tracked file in both stores arbitrary subject to invariant I; each of the (up to two) inner store operations may fail without effect or take effect and then report failure (crash right after it); one tracked key (operations on other keys do not interact: both stores are keyed maps)
//@ oracle: invariant I (cold-present => hot-present with identical content for key/snapshot/index/tree-pack files; data packs never in hot) holds after the step for every fault combination = at every crash point of every history (I is inductive); Ok => the cold store reflects the operation; inner calls carry the caller's (type,id,cacheable)
//@ assume: content addressing: a file already stored under an id has the same bytes as a new write under that id (ids are SHA-256 of the content for every file type except config)
//@ outside: config files (save_config / save_config_hot write them separately), equality of results with a single-store run, warm-up ordering inside threaded commands
#[kani::proof]
#[kani::unwind(6)]
#[kani::stub(std::backtrace::Backtrace::capture, crate::error::verif_harness::stub_backtrace_capture)]
#[kani::stub(crate::error::RusticError::new, crate::error::verif_harness::stub_rustic_new)]
#[kani::stub(crate::error::RusticError::attach_context, crate::error::verif_harness::stub_attach_context)]
#[kani::stub(crate::error::RusticError::attach_source, crate::error::verif_harness::stub_attach_source)]
pub(crate) fn c16_hotcold_step_with_faults() {
    let tpe = any_tpe();
    kani::assume(tpe != FileType::Config);
    let cacheable: bool = kani::any();
    let hot_eligible = cacheable || tpe != FileType::Pack;
    let (cold_p, hot_p, cold_t, hot_t): (bool, bool, u8, u8) = (kani::any(), kani::any(), kani::any(), kani::any());
    let cold = Arc::new(any_mock(cold_p, cold_t, &COLD_DATA));
    let hot = Arc::new(any_mock(hot_p, hot_t, &HOT_DATA));
    kani::assume(invariant(hot_eligible, &cold, &hot));
    let be = HotColdBackend { be: cold.clone(), be_hot: hot.clone() };
    let id0: u8 = kani::any();
    let id = vh::mk_id(id0);
    let is_write: bool = kani::any();
    if is_write {
        let payload: &'static mut [u8; 2] = Box::leak(Box::new(kani::any()));
        let tag = payload[0];
        // content addressing: a file id is the hash of its content, so a file already present under this id
        // has the content being written (config, the one exception, is excluded above)
        kani::assume(!cold_p || cold_t == tag);
        kani::assume(!hot_p || hot_t == tag);
        let r = be.write_bytes(tpe, &id, cacheable, Bytes::from_static(&*payload).into());
        if r.is_ok() {
            assert!(cold.present.load(SeqCst) && cold.tag.load(SeqCst) == tag);
            assert!(!hot_eligible || (hot.present.load(SeqCst) && hot.tag.load(SeqCst) == tag));
            kani::cover!(hot_eligible, "hot-eligible write succeeded");
            kani::cover!(!hot_eligible, "data pack write succeeded");
        } else {
            kani::cover!(hot.n_write.load(SeqCst) == 1 && cold.n_write.load(SeqCst) == 0, "crash between hot and cold write");
        }
        std::mem::forget(r);
    } else {
        let r = be.remove(tpe, &id, cacheable);
        if r.is_ok() {
            assert!(!cold.present.load(SeqCst));
            assert!(!hot_eligible || !hot.present.load(SeqCst));
        } else {
            kani::cover!(cold.n_remove.load(SeqCst) == 1 && hot.n_remove.load(SeqCst) == 0, "crash between cold and hot remove");
        }
        std::mem::forget(r);
    }
    // the invariant holds whatever happened
    assert!(invariant(hot_eligible, &cold, &hot));
    // data packs never touch the hot store
    if !hot_eligible { assert!(hot.mutations() == 0); }
    // inner calls carry the caller's key
    if cold.mutations() > 0 {
        assert!(cold.last_tpe.load(SeqCst) == tpe_u8(tpe) && cold.last_id0.load(SeqCst) == id0 && cold.last_cacheable.load(SeqCst) == cacheable);
    }
    if hot.mutations() > 0 {
        assert!(hot.last_tpe.load(SeqCst) == tpe_u8(tpe) && hot.last_id0.load(SeqCst) == id0 && hot.last_cacheable.load(SeqCst) == cacheable);
    }
    std::mem::forget(be); std::mem::forget(cold); std::mem::forget(hot);
}

//@ harness: c16_hotcold_routing
//@ prop: C16
//@ tier: quick
//@ timeout: 600
//@ kernel: HotColdBackend::{read_full, read_partial, list_with_size, needs_warm_up, warm_up, create}
//@ bound: one call with symbolic (file type, cacheable, offset<=4, length<=4)
//@ oracle: read_full is served by the hot store; read_partial by hot iff the file is hot-eligible (cacheable or not a pack) else by cold, with the caller's range; listings, needs_warm_up and warm_up are answered by the cold store only; create creates both stores, cold first
#[kani::proof]
#[kani::unwind(6)]
#[kani::stub(std::backtrace::Backtrace::capture, crate::error::verif_harness::stub_backtrace_capture)]
#[kani::stub(crate::error::RusticError::new, crate::error::verif_harness::stub_rustic_new)]
#[kani::stub(crate::error::RusticError::attach_context, crate::error::verif_harness::stub_attach_context)]
#[kani::stub(crate::error::RusticError::attach_source, crate::error::verif_harness::stub_attach_source)]
pub(crate) fn c16_hotcold_routing() {
    let tpe = any_tpe();
    let cacheable: bool = kani::any();
    let hot_eligible = cacheable || tpe != FileType::Pack;
    let mut c = MockBe::new(true, 0, &COLD_DATA);
    c.warm = kani::any();
    c.fail_create = kani::any();
    let warm = c.warm;
    let cold = Arc::new(c);
    let hot = Arc::new(MockBe::new(true, 0, &HOT_DATA));
    let be = HotColdBackend { be: cold.clone(), be_hot: hot.clone() };
    let id = vh::mk_id(kani::any());
    match kani::any::<u8>() % 5 {
        0 => {
            let r = be.read_full(tpe, &id).unwrap();
            assert!(r[0] == b'H');
            assert!(hot.n_read_full.load(SeqCst) == 1 && cold.n_read_full.load(SeqCst) == 0 && cold.n_read_partial.load(SeqCst) == 0);
            kani::cover!(true, "read_full routed");
            std::mem::forget(r);
        }
        1 => {
            let (o, l): (u32, u32) = (kani::any(), kani::any());
            kani::assume(o <= 4 && l <= 4 - o && l >= 1);
            let r = be.read_partial(tpe, &id, cacheable, o, l).unwrap();
            assert!(r.len() == l as usize);
            if o == 0 { assert!(r[0] == if hot_eligible { b'H' } else { b'C' }); }
            if hot_eligible {
                assert!(hot.n_read_partial.load(SeqCst) == 1 && cold.n_read_partial.load(SeqCst) == 0);
            } else {
                assert!(hot.n_read_partial.load(SeqCst) == 0 && cold.n_read_partial.load(SeqCst) == 1);
            }
            kani::cover!(!hot_eligible, "data pack read from cold");
            kani::cover!(hot_eligible, "read_partial from hot");
            std::mem::forget(r);
        }
        2 => {
            let r = be.list_with_size(tpe);
            assert!(cold.n_list.load(SeqCst) == 1 && hot.n_list.load(SeqCst) == 0);
            std::mem::forget(r);
        }
        3 => {
            assert!(be.needs_warm_up() == warm);
            let r = be.warm_up(tpe, &id);
            assert!(cold.n_warm.load(SeqCst) == 1 && hot.n_warm.load(SeqCst) == 0);
            std::mem::forget(r);
        }
        _ => {
            let r = be.create();
            if r.is_ok() { assert!(cold.n_create.load(SeqCst) == 1 && hot.n_create.load(SeqCst) == 1); }
            else { assert!(hot.n_create.load(SeqCst) == 0); }
            std::mem::forget(r);
        }
    }
    std::mem::forget(be); std::mem::forget(cold); std::mem::forget(hot);
}
