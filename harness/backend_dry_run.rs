#![allow(warnings, clippy::all, clippy::pedantic, clippy::nursery)]
//@ module: backend::dry_run
use super::*;
use crate::error::verif_harness as vh;
use crate::error::verif_harness::{MockBe, ModelKey};
use crate::backend::decrypt::DecryptBackend;
use std::sync::{Arc, atomic::Ordering::SeqCst};

static SERVE: [u8; 4] = [b'{', 1, 2, 3];

//@ harness: c15_dry_run_never_mutates
//@ prop: C15
//@ tier: quick
//@ timeout: 900
//@ mem: 10
//@ kernel: DryRunBackend::{new, write_bytes, remove, create, hash_write_full, set_zstd, set_extra_verify, read_full, read_partial, list_with_size}, DecryptWriteBackend::hash_write_full_uncompressed (provided method, through DryRunBackend::write_bytes)
//@ bound: one call of each mutating entry point chosen symbolically, with symbolic dry_run flag, file type, id byte, cacheable flag and a 3-byte JSON payload; inner backend = real DecryptBackend<ModelKey> over a counting mock store
//@ oracle: dry_run => the inner store sees no write_bytes / remove / create at all and the call still reports success; !dry_run => the call is forwarded (exactly one mutation reaches the store); reads are forwarded unchanged in both modes; set_zstd / set_extra_verify do not touch the wrapped backend's settings in dry-run mode
//@ stub: ModelKey; crypto::hasher::hash -> H'; Backtrace::capture; fmt::format
//@ outside: commands' own dry-run switches (prune/forget/repair/copy options) and TreeModifier's dry run (owns a packer thread)
#[kani::proof]
#[kani::unwind(40)]
#[kani::stub(std::backtrace::Backtrace::capture, crate::error::verif_harness::stub_backtrace_capture)]
#[kani::stub(alloc::fmt::format, crate::error::verif_harness::stub_format)]
#[kani::stub(crate::crypto::hasher::hash, crate::error::verif_harness::stub_hash)]
pub(crate) fn c15_dry_run_never_mutates() {
    let store = Arc::new(MockBe::new(true, 7, &SERVE));
    let inner = DecryptBackend::new(store.clone() as Arc<dyn WriteBackend>, ModelKey);
    let dry: bool = kani::any();
    let mut be = DryRunBackend::new(inner, dry);
    let tpe = vh::any_tpe();
    let id = vh::mk_id(kani::any());
    let cacheable: bool = kani::any();
    let payload: &'static mut [u8; 3] = Box::leak(Box::new(kani::any()));
    payload[0] = b'{';
    let which: u8 = kani::any();
    kani::assume(which < 6);
    let mut expect_mut = 1u8;
    match which {
        0 => { let r = be.write_bytes(tpe, &id, cacheable, Bytes::from_static(&*payload).into()); assert!(r.is_ok()); std::mem::forget(r); }
        1 => { let r = be.remove(tpe, &id, cacheable); assert!(r.is_ok()); std::mem::forget(r); }
        2 => { let r = be.create(); assert!(r.is_ok()); std::mem::forget(r); }
        3 => { let r = be.hash_write_full(tpe, &*payload); assert!(r.is_ok()); std::mem::forget(r); }
        4 => { let r = be.hash_write_full_uncompressed(tpe, &*payload); assert!(r.is_ok()); std::mem::forget(r); }
        _ => {
            be.set_zstd(Some(3));
            be.set_extra_verify(true);
            expect_mut = 0;
            let (z, ev) = crate::backend::decrypt::verif_harness::settings(&be.be);
            if dry { assert!(z.is_none() && !ev); } else { assert!(z == Some(3) && ev); }
        }
    }
    if dry {
        assert!(store.mutations() == 0);
        assert!(store.present.load(SeqCst) && store.tag.load(SeqCst) == 7);
        kani::cover!(which == 3, "dry-run hash_write_full");
        kani::cover!(which == 1, "dry-run remove");
    } else {
        assert!(store.mutations() == expect_mut);
        kani::cover!(which == 4, "real uncompressed write forwarded");
    }
    // reads are forwarded in both modes
    let r = be.read_full(tpe, &id).unwrap();
    assert!(r.len() == 4 && r[0] == b'{');
    std::mem::forget(r);
    let r = be.read_partial(tpe, &id, cacheable, 1, 2).unwrap();
    assert!(r.len() == 2 && r[0] == 1);
    std::mem::forget(r);
    assert!(store.n_read_full.load(SeqCst) == 1 && store.n_read_partial.load(SeqCst) == 1);
    std::mem::forget(be); std::mem::forget(store);
}
