#![allow(warnings, clippy::all, clippy::pedantic, clippy::nursery)]
//@ module: backend::decrypt
use super::*;
use crate::error::verif_harness as vh;
use crate::error::verif_harness::{ModelKey, NullBe, RecBe, is_model_ciphertext_of, MODEL_OVERHEAD};
use crate::blob::BlobLocation;
use std::sync::atomic::Ordering::SeqCst;

static EMPTY: [u8; 0] = [];

fn model_backend(serve: &'static [u8]) -> (Arc<RecBe>, DecryptBackend<ModelKey>) {
    let rec = Arc::new(RecBe::new(serve));
    let mut be = DecryptBackend::new(rec.clone() as Arc<dyn WriteBackend>, ModelKey);
    be.set_extra_verify(kani::any());
    (rec, be)
}
/// compression mode is concrete per harness instance (container lengths stay concrete); the level is symbolic
fn null_backend() -> (Arc<NullBe>, DecryptBackend<ModelKey>) {
    let nb = Arc::new(NullBe::new());
    let mut be = DecryptBackend::new(nb.clone() as Arc<dyn WriteBackend>, ModelKey);
    be.set_extra_verify(kani::any());
    (nb, be)
}
fn level<const ZSTD: bool>() -> Option<i32> { if ZSTD { let l: i32 = kani::any(); kani::assume((-7..=22).contains(&l)); Some(l) } else { None } }

/// blob framing: process_data -> (store) -> read_encrypted_from_partial
fn blob_roundtrip<const N: usize, const ZSTD: bool>() {
    let (rec, mut be) = null_backend();
    be.set_zstd(level::<ZSTD>());
    let data: [u8; N] = kani::any();
    let r = be.process_data(&data);
    match r {
        Ok((enc, len, ul)) => {
            assert!(len as usize == N);
            // C04-A1: what would be stored is an output of key.encrypt_data (no plaintext path)
            if be.zstd.is_none() { assert!(is_model_ciphertext_of(&enc, &data)); assert!(ul.is_none()); }
            else { assert!(ul.map(|x| x.get() as usize) == Some(N)); assert!(enc.len() == N + 1 + MODEL_OVERHEAD); }
            // C01-K2: reading back with the recorded lengths returns the input
            let back = be.read_encrypted_from_partial(&enc, ul);
            match back {
                Ok(b) => {
                    assert!(b.len() == N);
                    let mut i = 0;
                    while i < N { assert!(b[i] == data[i]); i += 1; }
                    kani::cover!(true, "blob read back");
                    std::mem::forget(b);
                }
                Err(e) => { std::mem::forget(e); assert!(false, "stored blob does not read back"); }
            }
            // a wrong recorded uncompressed length is refused, never silently accepted
            if let Some(u) = ul {
                let wrong = std::num::NonZeroU32::new(u.get() + 1);
                let r2 = be.read_encrypted_from_partial(&enc, wrong);
                assert!(r2.is_err());
                std::mem::forget(r2);
            }
            std::mem::forget(enc);
        }
        Err(e) => { std::mem::forget(e); assert!(false, "process_data failed on a model key that never fails"); }
    }
    assert!(rec.n_write.load(SeqCst) == 0);
    std::mem::forget(be); std::mem::forget(rec);
}

//@ harness: c01_blob_framing_roundtrip_3
//@ prop: C01 C04
//@ tier: quick
//@ timeout: 900
//@ mem: 10
//@ kernel: DecryptBackend::{process_data, encrypt_data, very_data, set_zstd, set_extra_verify}, DecryptReadBackend::read_encrypted_from_partial
//@ bound: blob of 3 symbolic bytes; compression off; extra_verify symbolic; nonce byte symbolic; unwind 40
//@ oracle: process_data returns (ciphertext, plain length, Some(plain length) iff compressed); uncompressed ciphertext is exactly key.encrypt_data(plaintext) under the model; read_encrypted_from_partial with the recorded length returns the input; a wrong recorded length is an error
//@ assume: blobs are non-empty (both chunkers never yield an empty chunk - asserted by C06 harnesses; a serialized tree is never empty)
//@ stub: CryptoKey = ModelKey (ideal AEAD model, DESIGN 1.5); zstd::stream::{encode_all,decode_all} -> invertible framing 0xFD||data; Backtrace::capture, fmt::format
#[kani::proof]
#[kani::unwind(40)]
#[kani::stub(std::backtrace::Backtrace::capture, crate::error::verif_harness::stub_backtrace_capture)]
#[kani::stub(alloc::fmt::format, crate::error::verif_harness::stub_format)]
#[kani::stub(zstd::stream::encode_all, crate::error::verif_harness::stub_encode_all)]
#[kani::stub(zstd::stream::decode_all, crate::error::verif_harness::stub_decode_all)]
pub(crate) fn c01_blob_framing_roundtrip_3() { blob_roundtrip::<3, false>(); }

//@ harness: c01_blob_framing_roundtrip_3_zstd
//@ prop: C01 C04
//@ tier: quick
//@ timeout: 900
//@ mem: 10
//@ kernel: as c01_blob_framing_roundtrip_3, compression branch
//@ bound: blob of 3 symbolic bytes; compression on with any level -7..=22; extra_verify symbolic; nonce byte symbolic; unwind 40
//@ oracle: as c01_blob_framing_roundtrip_3
//@ assume: blobs are non-empty
//@ stub: as c01_blob_framing_roundtrip_3
#[kani::proof]
#[kani::unwind(40)]
#[kani::stub(std::backtrace::Backtrace::capture, crate::error::verif_harness::stub_backtrace_capture)]
#[kani::stub(alloc::fmt::format, crate::error::verif_harness::stub_format)]
#[kani::stub(zstd::stream::encode_all, crate::error::verif_harness::stub_encode_all)]
#[kani::stub(zstd::stream::decode_all, crate::error::verif_harness::stub_decode_all)]
#[kani::stub(crate::error::RusticError::new, crate::error::verif_harness::stub_rustic_new)]
#[kani::stub(crate::error::RusticError::attach_context, crate::error::verif_harness::stub_attach_context)]
#[kani::stub(crate::error::RusticError::attach_source, crate::error::verif_harness::stub_attach_source)]
pub(crate) fn c01_blob_framing_roundtrip_3_zstd() { blob_roundtrip::<3, true>(); }

//@ harness: c01_blob_framing_roundtrip_1
//@ prop: C01 C04
//@ tier: thorough
//@ timeout: 900
//@ mem: 10
//@ kernel: as c01_blob_framing_roundtrip_3
//@ bound: blob of 1 symbolic byte (smallest non-empty blob); otherwise as c01_blob_framing_roundtrip_3
//@ oracle: as c01_blob_framing_roundtrip_3
//@ assume: blobs are non-empty
//@ stub: as c01_blob_framing_roundtrip_3
#[kani::proof]
#[kani::unwind(40)]
#[kani::stub(std::backtrace::Backtrace::capture, crate::error::verif_harness::stub_backtrace_capture)]
#[kani::stub(alloc::fmt::format, crate::error::verif_harness::stub_format)]
#[kani::stub(zstd::stream::encode_all, crate::error::verif_harness::stub_encode_all)]
#[kani::stub(zstd::stream::decode_all, crate::error::verif_harness::stub_decode_all)]
#[kani::stub(crate::error::RusticError::new, crate::error::verif_harness::stub_rustic_new)]
#[kani::stub(crate::error::RusticError::attach_context, crate::error::verif_harness::stub_attach_context)]
#[kani::stub(crate::error::RusticError::attach_source, crate::error::verif_harness::stub_attach_source)]
pub(crate) fn c01_blob_framing_roundtrip_1() { blob_roundtrip::<1, true>(); }

//@ harness: c01_file_framing_roundtrip
//@ prop: C01 C04
//@ tier: quick
//@ timeout: 900
//@ mem: 10
//@ kernel: DecryptBackend::{hash_write_full, encrypt_file, very_file, decrypt_file}, DecryptWriteBackend::hash_write_full_uncompressed, hash
//@ bound: repository file payload of 3 bytes, first byte '{' or '[' (JSON), others symbolic; compression off; extra_verify symbolic; file type symbolic (not config); unwind 40
//@ oracle: exactly one write reaches storage; the id returned == hash(bytes written) and equals the id passed to write_bytes; the bytes written are key.encrypt_data(..) output (model ciphertext of the payload, or of 0x02||compressed payload); decrypt_file(bytes written) == payload
//@ stub: ModelKey; zstd::stream::{copy_encode,decode_all} -> 0xFD framing; crypto::hasher::hash -> checksum model H'; Backtrace::capture; fmt::format
#[kani::proof]
#[kani::unwind(40)]
#[kani::stub(std::backtrace::Backtrace::capture, crate::error::verif_harness::stub_backtrace_capture)]
#[kani::stub(alloc::fmt::format, crate::error::verif_harness::stub_format)]
#[kani::stub(zstd::stream::copy_encode, crate::error::verif_harness::stub_copy_encode)]
#[kani::stub(zstd::stream::decode_all, crate::error::verif_harness::stub_decode_all)]
#[kani::stub(crate::crypto::hasher::hash, crate::error::verif_harness::stub_hash)]
pub(crate) fn c01_file_framing_roundtrip() { file_roundtrip::<false>(); }

//@ harness: c01_file_framing_roundtrip_zstd
//@ prop: C01 C04
//@ tier: quick
//@ timeout: 900
//@ mem: 10
//@ kernel: as c01_file_framing_roundtrip, compression branch (0x02 || compressed payload)
//@ bound: as c01_file_framing_roundtrip with compression on, any level -7..=22
//@ oracle: as c01_file_framing_roundtrip
//@ stub: as c01_file_framing_roundtrip
#[kani::proof]
#[kani::unwind(40)]
#[kani::stub(std::backtrace::Backtrace::capture, crate::error::verif_harness::stub_backtrace_capture)]
#[kani::stub(alloc::fmt::format, crate::error::verif_harness::stub_format)]
#[kani::stub(zstd::stream::copy_encode, crate::error::verif_harness::stub_copy_encode)]
#[kani::stub(zstd::stream::decode_all, crate::error::verif_harness::stub_decode_all)]
#[kani::stub(crate::crypto::hasher::hash, crate::error::verif_harness::stub_hash)]
pub(crate) fn c01_file_framing_roundtrip_zstd() { file_roundtrip::<true>(); }

fn file_roundtrip<const ZSTD: bool>() {
    let (rec, mut be) = model_backend(&EMPTY);
    be.set_zstd(level::<ZSTD>());
    let mut data: [u8; 3] = kani::any();
    data[0] = if kani::any() { b'{' } else { b'[' };
    let tpe = vh::any_tpe();
    kani::assume(tpe != FileType::Config);
    let uncompressed_path: bool = kani::any();
    let r = if uncompressed_path { be.hash_write_full_uncompressed(tpe, &data) } else { be.hash_write_full(tpe, &data) };
    match r {
        Ok(id) => {
            assert!(rec.n_write.load(SeqCst) == 1);
            assert!(rec.tpe.load(SeqCst) == vh::tpe_u8(tpe));
            let written = rec.written();
            assert!(id == crate::crypto::hasher::hash(&written));
            assert!(rec.written_id() == id);
            let compressed = be.zstd.is_some() && !uncompressed_path;
            if compressed {
                assert!(written.len() == 3 + 2 + MODEL_OVERHEAD);
            } else {
                assert!(is_model_ciphertext_of(&written, &data));
            }
            let back = be.decrypt_file(&written);
            match back {
                Ok(b) => { assert!(b.len() == 3 && b[0] == data[0] && b[1] == data[1] && b[2] == data[2]); kani::cover!(compressed || !ZSTD || uncompressed_path, "file read back (compressed where compression is on)"); kani::cover!(ZSTD || !compressed, "plain file read back"); std::mem::forget(b); }
                Err(e) => { std::mem::forget(e); assert!(false, "written file does not decrypt"); }
            }
            std::mem::forget(written);
        }
        Err(e) => { std::mem::forget(e); assert!(false, "write failed on a backend that never fails"); }
    }
    std::mem::forget(be); std::mem::forget(rec);
}


//@ harness: c04_tampered_blob_is_rejected
//@ prop: C04 C05
//@ tier: experimental
//@ timeout: 900
//@ mem: 10
//@ kernel: DecryptReadBackend::{read_encrypted_from_partial, read_encrypted_partial}, DecryptBackend::{decrypt, decrypt_file, read_encrypted_full}
//@ bound: a stored blob = model ciphertext of 3 symbolic bytes (uncompressed); one symbolic fault: flip any one bit of any one byte, truncate to any shorter length, or extend by one byte; recorded uncompressed length as written; unwind 40
//@ oracle: every read path returns Err or exactly the original plaintext - never different content, never raw bytes (no fallback); truncation below nonce+tag is an error, not a panic
//@ stub: ModelKey (ideal AEAD: the model's tag is sensitive to every single-byte change of nonce/ciphertext/tag); zstd -> 0xFD framing; Backtrace::capture; fmt::format
//@ outside: cryptographic strength of Poly1305-AES (a solver would construct forgeries for a known key; not a defect), nonce uniqueness (OS RNG)
#[kani::proof]
#[kani::unwind(40)]
#[kani::stub(std::backtrace::Backtrace::capture, crate::error::verif_harness::stub_backtrace_capture)]
#[kani::stub(alloc::fmt::format, crate::error::verif_harness::stub_format)]
#[kani::stub(zstd::stream::encode_all, crate::error::verif_harness::stub_encode_all)]
#[kani::stub(zstd::stream::decode_all, crate::error::verif_harness::stub_decode_all)]
#[kani::stub(crate::error::RusticError::new, crate::error::verif_harness::stub_rustic_new)]
#[kani::stub(crate::error::RusticError::attach_context, crate::error::verif_harness::stub_attach_context)]
#[kani::stub(crate::error::RusticError::attach_source, crate::error::verif_harness::stub_attach_source)]
pub(crate) fn c04_tampered_blob_is_rejected() { tamper_check::<false>(); }

//@ harness: c04_tampered_blob_is_rejected_zstd
//@ prop: C04 C05
//@ tier: experimental
//@ timeout: 900
//@ mem: 10
//@ kernel: as c04_tampered_blob_is_rejected, compressed blob
//@ bound: as c04_tampered_blob_is_rejected with compression on
//@ oracle: as c04_tampered_blob_is_rejected
//@ stub: as c04_tampered_blob_is_rejected
#[kani::proof]
#[kani::unwind(40)]
#[kani::stub(std::backtrace::Backtrace::capture, crate::error::verif_harness::stub_backtrace_capture)]
#[kani::stub(alloc::fmt::format, crate::error::verif_harness::stub_format)]
#[kani::stub(zstd::stream::encode_all, crate::error::verif_harness::stub_encode_all)]
#[kani::stub(zstd::stream::decode_all, crate::error::verif_harness::stub_decode_all)]
#[kani::stub(crate::error::RusticError::new, crate::error::verif_harness::stub_rustic_new)]
#[kani::stub(crate::error::RusticError::attach_context, crate::error::verif_harness::stub_attach_context)]
#[kani::stub(crate::error::RusticError::attach_source, crate::error::verif_harness::stub_attach_source)]
pub(crate) fn c04_tampered_blob_is_rejected_zstd() { tamper_check::<true>(); }

fn tamper_check<const ZSTD: bool>() {
    // content-sensitive model MAC (vh::MacKey): the only key for which "a flipped bit is detected" is meaningful
    let rec = Arc::new(NullBe::new());
    let mut be = DecryptBackend::new(rec.clone() as Arc<dyn WriteBackend>, vh::ModelKeyG::<true, true>);
    be.set_extra_verify(false);
    be.set_zstd(level::<ZSTD>());
    let data: [u8; 3] = kani::any();
    let (enc, _len, ul) = be.process_data(&data).unwrap();
    let n = enc.len();
    // one fault
    let mut bad: Vec<u8> = Vec::with_capacity(48);
    let kind: u8 = kani::any();
    kani::assume(kind < 3);
    let pos: usize = kani::any();
    kani::assume(pos < n);
    let bit: u8 = kani::any();
    kani::assume(bit < 8);
    let mut i = 0;
    while i < n {
        if kind == 1 && i >= pos { break; } // truncate to pos bytes
        bad.push(if kind == 0 && i == pos { enc[i] ^ (1 << bit) } else { enc[i] });
        i += 1;
    }
    if kind == 2 { bad.push(kani::any()); }
    let r = be.read_encrypted_from_partial(&bad, ul);
    match r {
        Ok(b) => {
            // only acceptable if the content is still exactly the original
            assert!(b.len() == 3 && b[0] == data[0] && b[1] == data[1] && b[2] == data[2]);
            std::mem::forget(b);
        }
        Err(e) => { kani::cover!(kind == 0, "bit flip rejected"); kani::cover!(kind == 1, "truncation rejected"); kani::cover!(kind == 2, "extension rejected"); std::mem::forget(e); }
    }
    std::mem::forget(bad); std::mem::forget(enc); std::mem::forget(be); std::mem::forget(rec);
}


/// accessors for other harness modules (fields are private to backend::decrypt)
pub(crate) fn settings<C: CryptoKey>(be: &DecryptBackend<C>) -> (Option<i32>, bool) { (be.zstd, be.extra_verify) }

// ---------------------------------------------------------------------------
// C04: a decrypt failure always becomes a read failure (no fallback to raw bytes)
// ---------------------------------------------------------------------------
/// key whose MAC check fails exactly when the harness says so (models "any tampering makes decryption fail":
/// the AEAD's job, assumed); otherwise it strips the 16+16 byte framing
#[derive(Clone, Copy, Debug)]
pub(crate) struct FlagKey<const REJECT: bool>;
impl<const REJECT: bool> CryptoKey for FlagKey<REJECT> {
    fn decrypt_data(&self, data: &[u8]) -> RusticResult<Vec<u8>> {
        if REJECT || data.len() < 32 { return Err(RusticError::new(ErrorKind::Cryptography, "mac")); }
        let n = data.len() - 32;
        let mut out = Vec::with_capacity(8);
        let mut j = 0;
        while j < n { out.push(data[16 + j]); j += 1; }
        Ok(out)
    }
    fn encrypt_data(&self, data: &[u8]) -> RusticResult<Vec<u8>> {
        let mut out = Vec::with_capacity(48);
        let mut i = 0; while i < 16 { out.push(0); i += 1; }
        let mut j = 0; while j < data.len() { out.push(data[j]); j += 1; }
        let mut k = 0; while k < 16 { out.push(0); k += 1; }
        Ok(out)
    }
}

static STORED: [u8; 36] = [0, 0, 0, 0, 0, 0, 0, 0, 0, 0, 0, 0, 0, 0, 0, 0, b'{', 0xFD, 7, 9, 0, 0, 0, 0, 0, 0, 0, 0, 0, 0, 0, 0, 0, 0, 0, 0];

//@ harness: c04_decrypt_failure_is_read_failure
//@ prop: C04 C05
//@ tier: quick
//@ timeout: 900
//@ mem: 10
//@ kernel: DecryptBackend::{decrypt, decrypt_file, read_encrypted_full}, DecryptReadBackend::{read_encrypted_from_partial, read_encrypted_partial}
//@ bound: a stored 36-byte file/blob (4 payload bytes in a 16+16 byte frame) served by a mock store; the key's MAC verdict: rejects (this harness) / accepts (c04_accepting_key_reads_check_lengths); read through one of read_encrypted_full / read_encrypted_partial (whole file / truncated frame / range outside the file) / read_encrypted_from_partial with symbolic recorded uncompressed length (None / any u32)
//@ oracle: if the key rejects, every read path returns Err - never raw or partial bytes; if the key accepts, a result is returned only when the recorded uncompressed length matches the decompressed length, otherwise Err; no panic for any offset/length
//@ stub: CryptoKey = FlagKey (MAC verdict is a harness flag: the AEAD's tamper detection is assumed, its strength is outside); zstd::stream::decode_all -> 0xFD framing; ToString::to_string -> empty string (error context values only); RusticError text; Backtrace::capture
//@ outside: cryptographic strength of Poly1305-AES, nonce uniqueness, key files / passwords / scrypt
#[kani::proof]
#[kani::unwind(40)]
#[kani::stub(std::backtrace::Backtrace::capture, crate::error::verif_harness::stub_backtrace_capture)]
#[kani::stub(alloc::fmt::format, crate::error::verif_harness::stub_format)]
#[kani::stub(crate::error::RusticError::new, crate::error::verif_harness::stub_rustic_new)]
#[kani::stub(crate::error::RusticError::attach_context, crate::error::verif_harness::stub_attach_context)]
#[kani::stub(crate::error::RusticError::attach_source, crate::error::verif_harness::stub_attach_source)]
#[kani::stub(zstd::stream::decode_all, crate::error::verif_harness::stub_decode_all)]
#[kani::stub(alloc::string::ToString::to_string, crate::error::verif_harness::ToStringModel::to_string)]
pub(crate) fn c04_decrypt_failure_is_read_failure() { reject_check::<true>(); }

//@ harness: c04_accepting_key_reads_check_lengths
//@ prop: C04 C05
//@ tier: quick
//@ timeout: 900
//@ mem: 10
//@ kernel: as c04_decrypt_failure_is_read_failure
//@ bound: as c04_decrypt_failure_is_read_failure with a key that accepts
//@ oracle: a result is returned only for complete frames inside the file and only when the recorded uncompressed length matches; its length is the recorded one
//@ stub: as c04_decrypt_failure_is_read_failure
#[kani::proof]
#[kani::unwind(40)]
#[kani::stub(std::backtrace::Backtrace::capture, crate::error::verif_harness::stub_backtrace_capture)]
#[kani::stub(alloc::fmt::format, crate::error::verif_harness::stub_format)]
#[kani::stub(crate::error::RusticError::new, crate::error::verif_harness::stub_rustic_new)]
#[kani::stub(crate::error::RusticError::attach_context, crate::error::verif_harness::stub_attach_context)]
#[kani::stub(crate::error::RusticError::attach_source, crate::error::verif_harness::stub_attach_source)]
#[kani::stub(zstd::stream::decode_all, crate::error::verif_harness::stub_decode_all)]
#[kani::stub(alloc::string::ToString::to_string, crate::error::verif_harness::ToStringModel::to_string)]
pub(crate) fn c04_accepting_key_reads_check_lengths() { reject_check::<false>(); }

/// the key's verdict is concrete per harness (a symbolic verdict merges the Ok and Err worlds of `decrypt`:
/// no result in 15 min); everything else is symbolic
fn reject_check<const REJECT: bool>() {
    let reject = REJECT;
    let rec = Arc::new(RecBe::new(&STORED));
    let be = DecryptBackend::new(rec.clone() as Arc<dyn WriteBackend>, FlagKey::<REJECT>);
    let id = vh::mk_id(1);
    let which: u8 = kani::any();
    kani::assume(which < 3);
    let ok = match which {
        0 => { let r = be.read_encrypted_full(FileType::Snapshot, &id); let ok = r.is_ok();
               if let Ok(b) = &r { assert!(b.len() == 4 && b[0] == b'{' && b[3] == 9); }
               std::mem::forget(r); ok }
        1 => {
            let ul = std::num::NonZeroU32::new(kani::any());
            // the read range is a symbolic choice among concrete ranges (a symbolic length makes every later copy a
            // symbolic-size memcpy): the whole file, a truncated frame, a range outside the file
            let (o, l) = match kani::any::<u8>() % 3 { 0 => (0u32, 36u32), 1 => (0, 20), _ => (40, 4) };
            let loc = BlobLocation { offset: o, length: l, uncompressed_length: ul };
            let r = be.read_encrypted_partial(FileType::Pack, &id, false, loc);
            let ok = r.is_ok();
            if let Ok(b) = &r {
                // only a complete frame decrypts; with the whole file: payload is '{',0xFD,7,9 - compressed reading strips 0xFD? no: payload[0] is '{'
                assert!(loc.offset as usize + loc.length as usize <= STORED.len() && loc.length >= 32);
                match ul { None => assert!(b.len() == loc.length as usize - 32), Some(u) => assert!(b.len() == u.get() as usize) }
            }
            std::mem::forget(r); ok }
        _ => {
            let ul = std::num::NonZeroU32::new(kani::any());
            // frame whose payload is a model-compressed blob: 0xFD, 7, 9
            let r = be.read_encrypted_from_partial(&STORED[1..36], ul);
            let ok = r.is_ok();
            if let Ok(b) = &r {
                match ul { None => assert!(b.len() == 3), Some(u) => { assert!(u.get() == 2 && b.len() == 2 && b[0] == 7 && b[1] == 9); } }
            }
            std::mem::forget(r); ok }
    };
    if reject { assert!(!ok); }
    kani::cover!(reject || (ok && which == 2), "compressed blob accepted with the right length (accepting key)");
    kani::cover!(reject || (!ok && which == 2), "wrong recorded length refused (accepting key)");
    kani::cover!(!reject || which == 1, "rejecting key: partial read fails");
    std::mem::forget(be); std::mem::forget(rec);
}
