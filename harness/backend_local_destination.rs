#![allow(warnings, clippy::all, clippy::pedantic, clippy::nursery)]
//@ module: backend::local_destination
use super::*;
use crate::backend::ignore::mapper::nix_mapper::map_mode_to_go;

//@ harness: c01_mode_bits_roundtrip
//@ prop: C01
//@ tier: quick
//@ timeout: 300
//@ kernel: backend::ignore::mapper::nix_mapper::{map_mode_to_go (backup side), map_mode_from_go (restore side: LocalDestination::set_permission)}
//@ bound: every u32 st_mode value
//@ oracle: the twelve permission bits (rwx for user/group/other, setuid, setgid, sticky) survive the backup-side and restore-side mapping unchanged; the file-type bits survive for regular files, directories, symlinks, block devices, fifos and sockets
//@ outside: character devices (map_mode_to_go ORs `GO_MODE_CHARDEV & GO_MODE_DEVICE` = 0, so their type bits are lost in the mode; the node type is stored separately - recorded as an observation, DESIGN 11); how the mode is applied to the file system
#[kani::proof]
pub(crate) fn c01_mode_bits_roundtrip() {
    let mode: u32 = kani::any();
    let back = map_mode_from_go(map_mode_to_go(mode));
    assert!(back & 0o7777 == mode & 0o7777);
    let fmt = mode & 0o170000;
    if fmt == 0o100000 || fmt == 0o040000 || fmt == 0o120000 || fmt == 0o060000 || fmt == 0o010000 || fmt == 0o140000 {
        assert!(back & 0o170000 == fmt);
    }
    kani::cover!(mode & 0o2000 != 0, "setgid entry");
    kani::cover!(fmt == 0o040000, "directory");
}
