#![allow(warnings, clippy::all, clippy::pedantic, clippy::nursery)]
//@ module: commands::config
use super::*;
use crate::error::verif_harness as vh;
use crate::blob::BlobType;
use crate::blob::packer::PackSizer;

fn any_opt_u32() -> Option<u32> { if kani::any() { Some(kani::any()) } else { None } }
fn any_opt_usize() -> Option<usize> { if kani::any() { Some(kani::any()) } else { None } }
fn any_opt_bool() -> Option<bool> { if kani::any() { Some(kani::any()) } else { None } }
fn any_opt_i32() -> Option<i32> { if kani::any() { Some(kani::any()) } else { None } }
fn any_opt_bs() -> Option<ByteSize> { if kani::any() { Some(ByteSize(kani::any())) } else { None } }
fn any_chunker() -> Option<Chunker> {
    if kani::any() { Some(if kani::any() { Chunker::Rabin } else { Chunker::FixedSize }) } else { None }
}

/// stub for config.rs's private error-text builder (formats a ByteSize as a float: flt2dec bignum loops)
pub(crate) fn stub_size_too_large(_err: std::num::TryFromIntError, _size: ByteSize) -> Box<RusticError> {
    RusticError::new(ErrorKind::Internal, "")
}

pub(crate) fn any_config() -> ConfigFile {
    let c = ConfigFile {
        version: kani::any(),
        id: Default::default(),
        chunker: any_chunker(),
        chunker_polynomial: String::new(),
        chunk_size: any_opt_usize(),
        chunk_min_size: any_opt_usize(),
        chunk_max_size: any_opt_usize(),
        is_hot: any_opt_bool(),
        append_only: any_opt_bool(),
        compression: any_opt_i32(),
        treepack_size: any_opt_u32(),
        treepack_growfactor: any_opt_u32(),
        treepack_size_limit: any_opt_u32(),
        datapack_size: any_opt_u32(),
        datapack_growfactor: any_opt_u32(),
        datapack_size_limit: any_opt_u32(),
        min_packsize_tolerate_percent: any_opt_u32(),
        max_packsize_tolerate_percent: any_opt_u32(),
        extra_verify: any_opt_bool(),
    };
    kani::assume(c.version == 1 || c.version == 2);
    c
}

pub(crate) fn any_options() -> ConfigOptions {
    ConfigOptions {
        set_version: any_opt_u32(),
        set_chunker: any_chunker(),
        set_chunk_size: any_opt_bs(),
        set_chunk_min_size: any_opt_bs(),
        set_chunk_max_size: any_opt_bs(),
        set_compression: any_opt_i32(),
        set_append_only: any_opt_bool(),
        set_treepack_size: any_opt_bs(),
        set_treepack_size_limit: any_opt_bs(),
        set_treepack_growfactor: any_opt_u32(),
        set_datapack_size: any_opt_bs(),
        set_datapack_growfactor: any_opt_u32(),
        set_datapack_size_limit: any_opt_bs(),
        set_min_packsize_tolerate_percent: any_opt_u32(),
        set_max_packsize_tolerate_percent: any_opt_u32(),
        set_extra_verify: any_opt_bool(),
    }
}

//@ harness: c18_config_apply_frame
//@ prop: C18
//@ tier: quick
//@ timeout: 600
//@ unwindset: _fmt_inner#0=24
//@ kernel: ConfigOptions::apply, check_rabin_params, ConfigFile::{chunker,chunk_size,chunk_min_size,chunk_max_size}
//@ bound: all 16 ConfigOptions fields and all 18 scalar ConfigFile fields symbolic over their full types (version in {1,2}); chunker_polynomial/id concrete (not read by apply)
//@ oracle: apply never panics (overflow/unwrap/index checks); Ok => every field whose option is None is unchanged, every named field has the requested value, version does not decrease
//@ assume: stored config has version 1 or 2 (only versions apply/init ever write)
//@ stub: RusticError::{new,attach_context,attach_source} and config::construct_size_too_large_error -> same error kind without text (error text is not the subject; the last one formats a ByteSize as a float); std::backtrace::Backtrace::capture -> disabled backtrace; alloc::fmt::format -> empty string; zstd::compression_level_range -> -131072..=22 (zstd's documented range)
#[kani::proof]
#[kani::unwind(4)]
#[kani::stub(std::backtrace::Backtrace::capture, crate::error::verif_harness::stub_backtrace_capture)]
#[kani::stub(crate::error::RusticError::new, crate::error::verif_harness::stub_rustic_new)]
#[kani::stub(crate::error::RusticError::attach_context, crate::error::verif_harness::stub_attach_context)]
#[kani::stub(crate::error::RusticError::attach_source, crate::error::verif_harness::stub_attach_source)]
#[kani::stub(zstd::compression_level_range, crate::error::verif_harness::stub_level_range)]
#[kani::stub(alloc::fmt::format, crate::error::verif_harness::stub_format)]
#[kani::stub(crate::commands::config::construct_size_too_large_error, stub_size_too_large)]
pub(crate) fn c18_config_apply_frame() {
    let mut config = any_config();
    let old = config.clone();
    let opts = any_options();
    let r = opts.apply(&mut config);
    if r.is_ok() {
        kani::cover!(true, "apply accepted");
        kani::cover!(opts.set_extra_verify.is_none() && old.extra_verify.is_some(), "accepted with extra_verify unnamed");
        // frame: unnamed settings unchanged
        if opts.set_version.is_none() { assert!(config.version == old.version); }
        if opts.set_chunker.is_none() { assert!(config.chunker == old.chunker); }
        if opts.set_chunk_size.is_none() { assert!(config.chunk_size == old.chunk_size); }
        if opts.set_chunk_min_size.is_none() { assert!(config.chunk_min_size == old.chunk_min_size); }
        if opts.set_chunk_max_size.is_none() { assert!(config.chunk_max_size == old.chunk_max_size); }
        if opts.set_compression.is_none() { assert!(config.compression == old.compression); }
        if opts.set_append_only.is_none() { assert!(config.append_only == old.append_only); }
        if opts.set_treepack_size.is_none() { assert!(config.treepack_size == old.treepack_size); }
        if opts.set_treepack_growfactor.is_none() { assert!(config.treepack_growfactor == old.treepack_growfactor); }
        if opts.set_treepack_size_limit.is_none() { assert!(config.treepack_size_limit == old.treepack_size_limit); }
        if opts.set_datapack_size.is_none() { assert!(config.datapack_size == old.datapack_size); }
        if opts.set_datapack_growfactor.is_none() { assert!(config.datapack_growfactor == old.datapack_growfactor); }
        if opts.set_datapack_size_limit.is_none() { assert!(config.datapack_size_limit == old.datapack_size_limit); }
        if opts.set_min_packsize_tolerate_percent.is_none() { assert!(config.min_packsize_tolerate_percent == old.min_packsize_tolerate_percent); }
        if opts.set_max_packsize_tolerate_percent.is_none() { assert!(config.max_packsize_tolerate_percent == old.max_packsize_tolerate_percent); }
        if opts.set_extra_verify.is_none() { assert!(config.extra_verify == old.extra_verify); }
        assert!(config.is_hot == old.is_hot);
        // named settings take the requested value
        if let Some(v) = opts.set_version { assert!(config.version == v); }
        if let Some(v) = opts.set_chunker { assert!(config.chunker == Some(v)); }
        if let Some(v) = opts.set_chunk_size { assert!(config.chunk_size == Some(v.as_u64() as usize)); }
        if let Some(v) = opts.set_chunk_min_size { assert!(config.chunk_min_size == Some(v.as_u64() as usize)); }
        if let Some(v) = opts.set_chunk_max_size { assert!(config.chunk_max_size == Some(v.as_u64() as usize)); }
        if let Some(v) = opts.set_compression { assert!(config.compression == Some(v)); }
        if let Some(v) = opts.set_append_only { assert!(config.append_only == Some(v)); }
        if let Some(v) = opts.set_treepack_size { assert!(config.treepack_size.map(u64::from) == Some(v.as_u64())); }
        if let Some(v) = opts.set_datapack_size { assert!(config.datapack_size.map(u64::from) == Some(v.as_u64())); }
        if let Some(v) = opts.set_treepack_size_limit { assert!(config.treepack_size_limit.map(u64::from) == Some(v.as_u64())); }
        if let Some(v) = opts.set_datapack_size_limit { assert!(config.datapack_size_limit.map(u64::from) == Some(v.as_u64())); }
        if let Some(v) = opts.set_treepack_growfactor { assert!(config.treepack_growfactor == Some(v)); }
        if let Some(v) = opts.set_datapack_growfactor { assert!(config.datapack_growfactor == Some(v)); }
        if let Some(v) = opts.set_min_packsize_tolerate_percent { assert!(config.min_packsize_tolerate_percent == Some(v)); }
        if let Some(v) = opts.set_max_packsize_tolerate_percent { assert!(config.max_packsize_tolerate_percent == Some(v)); }
        if let Some(v) = opts.set_extra_verify { assert!(config.extra_verify == Some(v)); }
        // downgrade refused
        assert!(config.version >= old.version);
        assert!(config.version == 1 || config.version == 2);
    } else {
        kani::cover!(true, "apply refused");
    }
    std::mem::forget(r);
}

//@ harness: c18_config_accepted_is_usable
//@ prop: C18
//@ tier: quick
//@ timeout: 900
//@ unwindset: _fmt_inner#0=24
//@ kernel: ConfigOptions::apply, check_rabin_params, ConfigFile::{zstd,chunk_size,chunk_min_size,chunk_max_size,chunker}
//@ bound: options/config fully symbolic as in c18_config_apply_frame
//@ oracle: Ok(apply) => the resulting configuration is internally usable: chunk size > 0, rabin parameters pass check_rabin_params without panic and leave room for the 64-byte window (min >= 64 is NOT demanded; that is C06's harness), zstd() is Ok, compression level is inside zstd's range and 0 for v1
//@ assume: the stored config satisfies the same usability invariant (chunk size > 0; rabin => power of two and min <= size <= max): it was produced by init defaults or an earlier accepted apply, so the harness is an inductive step
//@ stub: Backtrace::capture, alloc::fmt::format, zstd::compression_level_range -> -131072..=22
#[kani::proof]
#[kani::unwind(4)]
#[kani::stub(std::backtrace::Backtrace::capture, crate::error::verif_harness::stub_backtrace_capture)]
#[kani::stub(crate::error::RusticError::new, crate::error::verif_harness::stub_rustic_new)]
#[kani::stub(crate::error::RusticError::attach_context, crate::error::verif_harness::stub_attach_context)]
#[kani::stub(crate::error::RusticError::attach_source, crate::error::verif_harness::stub_attach_source)]
#[kani::stub(zstd::compression_level_range, crate::error::verif_harness::stub_level_range)]
#[kani::stub(alloc::fmt::format, crate::error::verif_harness::stub_format)]
#[kani::stub(crate::commands::config::construct_size_too_large_error, stub_size_too_large)]
pub(crate) fn c18_config_accepted_is_usable() {
    let mut config = any_config();
    // inductive hypothesis on the stored configuration
    kani::assume(config.chunk_size() > 0);
    if matches!(config.chunker(), Chunker::Rabin) {
        kani::assume(config.chunk_size().is_power_of_two());
        kani::assume(config.chunk_min_size() <= config.chunk_size() && config.chunk_size() <= config.chunk_max_size());
    }
    let opts = any_options();
    let r = opts.apply(&mut config);
    if r.is_ok() {
        kani::cover!(true, "apply accepted");
        kani::cover!(opts.set_chunk_size.is_some(), "accepted with a chunk size named");
        // chunker parameters
        assert!(config.chunk_size() > 0);
        if matches!(config.chunker(), Chunker::Rabin) {
            let c = check_rabin_params(config.chunk_size(), config.chunk_min_size(), config.chunk_max_size());
            assert!(c.is_ok());
            std::mem::forget(c);
            assert!(config.chunk_size().is_power_of_two());
            assert!(config.chunk_min_size() <= config.chunk_size() && config.chunk_size() <= config.chunk_max_size());
        }
        // (pack sizing: PackSizer arithmetic is checked for *every* field value, a superset of what
        //  apply can produce, in c18_pack_size_no_overflow / c18_pack_sizer_predicates)
        let r2 = config.zstd();
        assert!(r2.is_ok());
        std::mem::forget(r2);
        // compression named by this change is valid for the version
        if let Some(c) = opts.set_compression {
            assert!(config.version == 2 || c == 0);
            assert!((-131072..=22).contains(&c));
        }
    }
    std::mem::forget(r);
}
