#![allow(warnings, clippy::all, clippy::pedantic, clippy::nursery)]
use super::*;
