#![allow(warnings, clippy::all, clippy::pedantic, clippy::nursery)]
//@ module: commands::restore
use super::*;
use crate::error::verif_harness as vh;
use crate::blob::BlobLocations;

fn any_group(pack: u8) -> PackInfo {
    let from_file = if kani::any() { Some((kani::any::<usize>(), kani::any::<u64>(), kani::any::<u32>())) } else { None };
    let off: u32 = kani::any();
    let len: u32 = kani::any();
    kani::assume(u64::from(off) + u64::from(len) <= u64::from(u32::MAX - 256 * 1024));
    // member lists are SmallVecs (out of CBMC's reach when appended to); kept empty, see c14_coalesce_step_covers_members
    PackInfo { pack_id: PackId::from(vh::mk_id(pack)), from_file, locations: BlobLocations { offset: off, length: len, blobs: SmallVec::new() } }
}

//@ harness: c14_restore_group_coalesce
//@ prop: C14
//@ tier: quick
//@ timeout: 600
//@ kernel: restore::PackInfo::coalesce, BlobLocations::{can_coalesce, append}
//@ bound: two arbitrary read groups (pack id from a 2-element domain, optional "read from an existing destination file" source with symbolic parameters, symbolic pack range below 4 GiB - 256 KiB); one coalesce step
//@ oracle: groups are merged only if they are in the same pack, the ranges can be coalesced, and the merged group reads from the pack - a merged group never reads from an existing destination file (it would hand the first blob's bytes to every member); a refused merge returns both groups unchanged
//@ assume: blobs end below 4 GiB - 256 KiB
#[kani::proof]
#[kani::unwind(36)]
pub(crate) fn c14_restore_group_coalesce() {
    let (pa, pb): (u8, u8) = (kani::any(), kani::any());
    kani::assume(pa < 2 && pb < 2);
    let a = any_group(pa);
    let b = any_group(pb);
    let (a_ff, b_ff) = (a.from_file, b.from_file);
    let (ao, al, bo, bl) = (a.locations.offset, a.locations.length, b.locations.offset, b.locations.length);
    let could = a.locations.can_coalesce(&b.locations);
    match a.coalesce(b) {
        Ok(m) => {
            assert!(pa == pb && could);
            assert!(m.from_file.is_none(), "a merged read group must be read from the pack");
            assert!(m.pack_id == PackId::from(vh::mk_id(pa)));
            assert!(m.locations.offset == ao && m.locations.length == bo + bl - ao);
            kani::cover!(b_ff.is_some(), "a from-file blob absorbed into a pack read");
            std::mem::forget(m);
        }
        Err((x, y)) => {
            assert!(x.from_file == a_ff && y.from_file == b_ff);
            assert!(x.locations.offset == ao && x.locations.length == al && y.locations.offset == bo && y.locations.length == bl);
            kani::cover!(pa == pb && could && a_ff.is_some(), "merge refused because the first group reads from a file");
            std::mem::forget(x); std::mem::forget(y);
        }
    }
}
