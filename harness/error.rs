#![allow(warnings, clippy::all, clippy::pedantic, clippy::nursery)]
//! Shared stubs used by all harness modules (see DESIGN.md 1.3 / 1.5).
//! Error *text* and backtraces are never the subject of a property.
use super::*;

/// stub for `std::backtrace::Backtrace::capture` (reaches getenv / foreign code)
pub(crate) fn stub_backtrace_capture() -> std::backtrace::Backtrace {
    std::backtrace::Backtrace::disabled()
}

/// stub for `alloc::fmt::format`
pub(crate) fn stub_format(_a: std::fmt::Arguments<'_>) -> String {
    String::new()
}

/// stub for `zstd::compression_level_range`
pub(crate) fn stub_level_range() -> std::ops::RangeInclusive<i32> {
    -131072..=22
}

/// stub for `std::time::SystemTime::now`
pub(crate) fn stub_systime_now() -> std::time::SystemTime {
    std::time::SystemTime::UNIX_EPOCH
}

/// id whose first byte is `b`, rest zero (ids are opaque labels to checked code)
pub(crate) fn mk_id(b: u8) -> crate::id::Id {
    let mut r = [0u8; 32];
    r[0] = b;
    crate::id::Id::new(r)
}
