#![allow(warnings, clippy::all, clippy::pedantic, clippy::nursery)]
//! Shared stubs used by all harness modules (see DESIGN.md 1.3 / 1.5).
//! Error *text* and backtraces are never the subject of a property.
use super::*;

/// stub for `std::backtrace::Backtrace::capture` (reaches getenv / foreign code)
pub(crate) fn stub_backtrace_capture() -> std::backtrace::Backtrace {
    std::backtrace::Backtrace::disabled()
}

/// stubs for RusticError construction: error *text* (guidance strings, context values, sources) is never the
/// subject of a property; building it costs EcoString heap loops and `dyn Error` boxing (DESIGN 1.3)
pub(crate) fn stub_rustic_new<G: Into<EcoString>>(kind: ErrorKind, _guidance: G) -> Box<RusticError> {
    Box::new(RusticError {
        kind, guidance: EcoString::new(), docs_url: None, error_code: None, ask_report: false,
        existing_issue_urls: EcoVec::new(), new_issue_url: None, context: EcoVec::new(), source: None,
        severity: None, status: None, backtrace: None,
    })
}
pub(crate) fn stub_attach_context<K: Into<EcoString>, V: Into<EcoString>>(this: RusticError, _key: K, _value: V) -> Box<RusticError> {
    Box::new(this)
}
pub(crate) fn stub_attach_source<S: Into<Box<dyn std::error::Error + Send + Sync>>>(this: RusticError, value: S) -> Box<RusticError> {
    std::mem::forget(value);
    Box::new(this)
}

/// trait-shaped stub for `ToString::to_string` (error-context values like `id.to_string()`: hex encoding + UTF-8
/// validation loops); only used in harnesses where no result of to_string() is semantically relevant
pub(crate) trait ToStringModel {
    fn to_string(&self) -> String { String::new() }
}
impl<T: std::fmt::Display + ?Sized> ToStringModel for T {}

/// stub for `alloc::fmt::format`
pub(crate) fn stub_format(_a: std::fmt::Arguments<'_>) -> String {
    String::new()
}

/// stub for `zstd::compression_level_range`
pub(crate) fn stub_level_range() -> std::ops::RangeInclusive<i32> {
    -131072..=22
}

/// stub for `std::time::SystemTime::now`
pub(crate) fn stub_systime_now() -> std::time::SystemTime {
    std::time::SystemTime::UNIX_EPOCH
}

/// id whose first byte is `b`, rest zero (ids are opaque labels to checked code)
pub(crate) fn mk_id(b: u8) -> crate::id::Id {
    let mut r = [0u8; 32];
    r[0] = b;
    crate::id::Id::new(r)
}

// ---------------------------------------------------------------------------
// Mock storage backend: ONE tracked file slot (stores are keyed maps; operations
// on different keys do not interact), symbolic fault flags, call counters.
// No HashMap, no allocation of symbolic size.
// ---------------------------------------------------------------------------
use crate::backend::{BytesList, FileType, ReadBackend, WriteBackend};
use bytes::Bytes;
use std::sync::atomic::{AtomicBool, AtomicU32, AtomicU8, Ordering::SeqCst};

#[derive(Debug)]
pub(crate) struct MockBe {
    pub present: AtomicBool,
    /// content tag of the tracked file (first byte written)
    pub tag: AtomicU8,
    pub size: AtomicU32,
    /// fault: the operation fails without any effect
    pub fail_write: bool,
    pub fail_remove: bool,
    pub fail_create: bool,
    /// fault: the operation takes effect but the caller sees an error (crash / lost ack right after it)
    pub lost_ack: bool,
    pub n_write: AtomicU8,
    pub n_remove: AtomicU8,
    pub n_create: AtomicU8,
    pub n_read_full: AtomicU8,
    pub n_read_partial: AtomicU8,
    pub n_list: AtomicU8,
    pub n_warm: AtomicU8,
    /// last key seen by write/remove/read (tpe as u8, first id byte, cacheable)
    pub last_tpe: AtomicU8,
    pub last_id0: AtomicU8,
    pub last_cacheable: AtomicBool,
    /// bytes served by reads
    pub data: &'static [u8],
    pub warm: bool,
}

pub(crate) fn tpe_u8(t: FileType) -> u8 {
    match t { FileType::Config => 0, FileType::Index => 1, FileType::Key => 2, FileType::Snapshot => 3, FileType::Pack => 4 }
}
pub(crate) fn any_tpe() -> FileType {
    match kani::any::<u8>() % 5 { 0 => FileType::Config, 1 => FileType::Index, 2 => FileType::Key, 3 => FileType::Snapshot, _ => FileType::Pack }
}

impl MockBe {
    pub(crate) fn new(present: bool, tag: u8, data: &'static [u8]) -> Self {
        Self {
            present: AtomicBool::new(present), tag: AtomicU8::new(tag), size: AtomicU32::new(1),
            fail_write: false, fail_remove: false, fail_create: false, lost_ack: false,
            n_write: AtomicU8::new(0), n_remove: AtomicU8::new(0), n_create: AtomicU8::new(0),
            n_read_full: AtomicU8::new(0), n_read_partial: AtomicU8::new(0), n_list: AtomicU8::new(0), n_warm: AtomicU8::new(0),
            last_tpe: AtomicU8::new(255), last_id0: AtomicU8::new(0), last_cacheable: AtomicBool::new(false),
            data, warm: false,
        }
    }
    fn note(&self, tpe: FileType, id: &crate::id::Id, c: bool) {
        self.last_tpe.store(tpe_u8(tpe), SeqCst);
        self.last_id0.store(crate::id::verif_harness::id0(id), SeqCst);
        self.last_cacheable.store(c, SeqCst);
    }
    pub(crate) fn mutations(&self) -> u8 {
        self.n_write.load(SeqCst) + self.n_remove.load(SeqCst) + self.n_create.load(SeqCst)
    }
    fn err() -> Box<RusticError> { RusticError::new(ErrorKind::Backend, "injected") }
}
impl ReadBackend for MockBe {
    fn location(&self) -> String { String::new() }
    fn list_with_size(&self, _tpe: FileType) -> RusticResult<Vec<(crate::id::Id, u32)>> {
        self.n_list.fetch_add(1, SeqCst);
        Ok(Vec::new())
    }
    fn read_full(&self, tpe: FileType, id: &crate::id::Id) -> RusticResult<Bytes> {
        self.n_read_full.fetch_add(1, SeqCst);
        self.note(tpe, id, false);
        Ok(Bytes::from_static(self.data))
    }
    fn read_partial(&self, tpe: FileType, id: &crate::id::Id, c: bool, offset: u32, length: u32) -> RusticResult<Bytes> {
        self.n_read_partial.fetch_add(1, SeqCst);
        self.note(tpe, id, c);
        let (o, l) = (offset as usize, length as usize);
        if o > self.data.len() || l > self.data.len() - o {
            return Err(Self::err());
        }
        Ok(Bytes::from_static(&self.data[o..o + l]))
    }
    fn warmup_path(&self, _tpe: FileType, _id: &crate::id::Id) -> String { String::new() }
    fn needs_warm_up(&self) -> bool { self.warm }
    fn warm_up(&self, _tpe: FileType, _id: &crate::id::Id) -> RusticResult<()> { self.n_warm.fetch_add(1, SeqCst); Ok(()) }
}
impl WriteBackend for MockBe {
    fn create(&self) -> RusticResult<()> {
        if self.fail_create { return Err(Self::err()); }
        self.n_create.fetch_add(1, SeqCst);
        if self.lost_ack { return Err(Self::err()); }
        Ok(())
    }
    fn write_bytes(&self, tpe: FileType, id: &crate::id::Id, c: bool, content: BytesList) -> RusticResult<()> {
        if self.fail_write { std::mem::forget(content); return Err(Self::err()); }
        self.n_write.fetch_add(1, SeqCst);
        self.note(tpe, id, c);
        self.present.store(true, SeqCst);
        let sl = content.slice();
        let t = if !sl.is_empty() && !sl[0].is_empty() { sl[0][0] } else { 0 };
        self.tag.store(t, SeqCst);
        self.size.store(content.size() as u32, SeqCst);
        std::mem::forget(content);
        if self.lost_ack { return Err(Self::err()); }
        Ok(())
    }
    fn remove(&self, tpe: FileType, id: &crate::id::Id, c: bool) -> RusticResult<()> {
        if self.fail_remove { return Err(Self::err()); }
        self.n_remove.fetch_add(1, SeqCst);
        self.note(tpe, id, c);
        self.present.store(false, SeqCst);
        if self.lost_ack { return Err(Self::err()); }
        Ok(())
    }
}

// ---------------------------------------------------------------------------
// Model CryptoKey (ideal single-use AEAD, DESIGN 1.5):
//   encrypt(p) = nonce[16] || (p XOR 0x5a) || tag[16],  nonce[0] arbitrary (models the RNG), rest 0;
//   tag[0] = checksum(nonce[0], ciphertext), tag[1..] = 0xA5.
//   decrypt accepts exactly byte strings with a consistent tag, so changing any single byte of
//   nonce[0] / ciphertext / tag[0] makes it fail.
// DecryptBackend<C: CryptoKey> is generic: the *real* backend code runs over this key.
// ---------------------------------------------------------------------------
use crate::crypto::CryptoKey;

#[derive(Clone, Copy, Debug)]
pub(crate) struct ModelKeyG<const TAG: bool, const NONCE: bool>;
/// default model key: symbolic nonce, fixed tag bytes (format-checking AEAD).  A content-sensitive tag (TAG = true)
/// makes `decrypt` succeed/fail on a condition CBMC cannot simplify; every later access then goes through
/// merged pointers and the SAT instance exceeds 30 GB (measured) - it is used only in the small tamper harnesses.
pub(crate) type ModelKey = ModelKeyG<false, true>;
pub(crate) const ModelKey: ModelKey = ModelKeyG::<false, true>;
pub(crate) type MacKey = ModelKeyG<true, true>;

/// constant trip count (8 >= every harness payload incl. compression framing); reads only, no pushes:
/// a `while i < ct.len()` loop here costs 4x the symex steps and 15x the SAT memory (measured)
fn model_tag(nonce0: u8, buf: &[u8], start: usize, n: usize) -> u8 {
    let mut t = nonce0 ^ 0x3c ^ (n as u8).wrapping_mul(17);
    let mut i = 0;
    while i < 8 {
        if i < n { t = t.wrapping_add(buf[start + i]).rotate_left(1) ^ (i as u8); }
        i += 1;
    }
    t
}

pub(crate) const MODEL_OVERHEAD: usize = 32;

impl<const TAG: bool, const NONCE: bool> CryptoKey for ModelKeyG<TAG, NONCE> {
    fn decrypt_data(&self, data: &[u8]) -> RusticResult<Vec<u8>> {
        if data.len() < MODEL_OVERHEAD {
            return Err(RusticError::new(ErrorKind::Cryptography, "m:short"));
        }
        let n = data.len() - MODEL_OVERHEAD;
        let mut i = 1;
        while i < 16 {
            if data[i] != 0 || data[16 + n + i] != 0xA5 {
                return Err(RusticError::new(ErrorKind::Cryptography, "m:mac"));
            }
            i += 1;
        }
        if data[16 + n] != if TAG { model_tag(data[0], data, 16, n) } else { 0xA5 } {
            return Err(RusticError::new(ErrorKind::Cryptography, "m:mac"));
        }
        let mut out = Vec::with_capacity(8);
        let mut j = 0;
        while j < n {
            out.push(data[16 + j] ^ 0x5a);
            j += 1;
        }
        Ok(out)
    }
    fn encrypt_data(&self, data: &[u8]) -> RusticResult<Vec<u8>> {
        let mut out = Vec::with_capacity(48);
        let nonce0: u8 = if NONCE { kani::any() } else { 0 };
        out.push(nonce0);
        let mut i = 1;
        while i < 16 { out.push(0); i += 1; }
        let mut j = 0;
        while j < data.len() { out.push(data[j] ^ 0x5a); j += 1; }
        let t = if TAG { model_tag(nonce0, &out, 16, data.len()) } else { 0xA5 };
        out.push(t);
        let mut k = 1;
        while k < 16 { out.push(0xA5); k += 1; }
        Ok(out)
    }
}

/// is `enc` an output of ModelKey::encrypt_data for plaintext `p`?
pub(crate) fn is_model_ciphertext_of(enc: &[u8], p: &[u8]) -> bool {
    if enc.len() != p.len() + MODEL_OVERHEAD { return false; }
    let mut j = 0;
    while j < p.len() { if enc[16 + j] != p[j] ^ 0x5a { return false; } j += 1; }
    let mut i = 1;
    while i < 16 { if enc[i] != 0 || enc[16 + p.len() + i] != 0xA5 { return false; } i += 1; }
    enc[16 + p.len()] == 0xA5
}

// ---------------------------------------------------------------------------
// zstd model: invertible framing 0xFD || data  (stubs for zstd::stream::{encode_all, decode_all, copy_encode})
// ---------------------------------------------------------------------------
pub(crate) fn stub_encode_all<R: std::io::Read>(mut source: R, _level: i32) -> std::io::Result<Vec<u8>> {
    // one bounded read: harness inputs are at most 16 bytes
    let mut buf = [0u8; 16];
    let n = source.read(&mut buf)?;
    let mut v = Vec::with_capacity(17);
    v.push(0xFD);
    let mut i = 0;
    while i < n { v.push(buf[i]); i += 1; }
    Ok(v)
}
pub(crate) fn stub_decode_all<R: std::io::Read>(mut source: R) -> std::io::Result<Vec<u8>> {
    let mut buf = [0u8; 17];
    let n = source.read(&mut buf)?;
    if n == 0 || buf[0] != 0xFD { return Err(std::io::Error::from(std::io::ErrorKind::InvalidData)); }
    let mut v = Vec::with_capacity(16);
    let mut i = 1;
    while i < n { v.push(buf[i]); i += 1; }
    Ok(v)
}
pub(crate) fn stub_copy_encode<R: std::io::Read, W: std::io::Write>(mut source: R, mut destination: W, _level: i32) -> std::io::Result<()> {
    let mut buf = [0u8; 17];
    buf[0] = 0xFD;
    let n = source.read(&mut buf[1..])?;
    destination.write_all(&buf[..n + 1])?;
    Ok(())
}

// ---------------------------------------------------------------------------
// hash model H': cheap, length- and position-sensitive checksum standing in for SHA-256
// (stub for crate::crypto::hasher::hash).  Checked statements are of the form
// "the id recorded == hash(the bytes written)" and call `hash` by its real name.
// ---------------------------------------------------------------------------
pub(crate) fn stub_hash(data: &[u8]) -> crate::id::Id {
    let mut r = [0u8; 32];
    let mut a: u8 = 0x9e;
    let mut b: u8 = data.len() as u8;
    let mut i = 0;
    while i < data.len() {
        a = a.wrapping_add(data[i]).rotate_left(3) ^ (i as u8);
        b = b.wrapping_mul(31).wrapping_add(data[i]);
        i += 1;
    }
    r[0] = a;
    r[1] = b;
    crate::id::Id::new(r)
}

/// a stateless backend: reads fail, writes are counted only
#[derive(Debug)]
pub(crate) struct NullBe { pub n_write: AtomicU8 }
impl NullBe { pub(crate) fn new() -> Self { Self { n_write: AtomicU8::new(0) } } }
impl ReadBackend for NullBe {
    fn location(&self) -> String { String::new() }
    fn list_with_size(&self, _tpe: FileType) -> RusticResult<Vec<(crate::id::Id, u32)>> { Ok(Vec::new()) }
    fn read_full(&self, _tpe: FileType, _id: &crate::id::Id) -> RusticResult<Bytes> { Ok(Bytes::new()) }
    fn read_partial(&self, _tpe: FileType, _id: &crate::id::Id, _c: bool, _o: u32, _l: u32) -> RusticResult<Bytes> { Ok(Bytes::new()) }
    fn warmup_path(&self, _tpe: FileType, _id: &crate::id::Id) -> String { String::new() }
}
impl WriteBackend for NullBe {
    fn create(&self) -> RusticResult<()> { Ok(()) }
    fn write_bytes(&self, _tpe: FileType, _id: &crate::id::Id, _c: bool, content: BytesList) -> RusticResult<()> { self.n_write.fetch_add(1, SeqCst); std::mem::forget(content); Ok(()) }
    fn remove(&self, _tpe: FileType, _id: &crate::id::Id, _c: bool) -> RusticResult<()> { Ok(()) }
}

/// a write-recording sink: remembers the first (tpe, id, bytes) written (up to CAP bytes)
pub(crate) const SINK_CAP: usize = 48;
#[derive(Debug)]
pub(crate) struct RecBe {
    pub n_write: AtomicU8,
    pub tpe: AtomicU8,
    pub id: [AtomicU8; 32],
    pub len: AtomicU32,
    pub bytes: [AtomicU8; SINK_CAP],
    pub cacheable: AtomicBool,
    /// bytes served by read_full / read_partial
    pub serve: &'static [u8],
}
impl RecBe {
    pub(crate) fn new(serve: &'static [u8]) -> Self {
        Self { n_write: AtomicU8::new(0), tpe: AtomicU8::new(255), id: [const { AtomicU8::new(0) }; 32], len: AtomicU32::new(0),
               bytes: [const { AtomicU8::new(0) }; SINK_CAP], cacheable: AtomicBool::new(false), serve }
    }
    pub(crate) fn written_id(&self) -> crate::id::Id {
        let mut r = [0u8; 32];
        let mut k = 0;
        while k < 32 { r[k] = self.id[k].load(SeqCst); k += 1; }
        crate::id::Id::new(r)
    }
    pub(crate) fn written(&self) -> Vec<u8> {
        let n = self.len.load(SeqCst) as usize;
        let mut v = Vec::with_capacity(SINK_CAP);
        let mut i = 0;
        while i < n && i < SINK_CAP { v.push(self.bytes[i].load(SeqCst)); i += 1; }
        v
    }
}
impl ReadBackend for RecBe {
    fn location(&self) -> String { String::new() }
    fn list_with_size(&self, _tpe: FileType) -> RusticResult<Vec<(crate::id::Id, u32)>> { Ok(Vec::new()) }
    fn read_full(&self, _tpe: FileType, _id: &crate::id::Id) -> RusticResult<Bytes> { Ok(Bytes::from_static(self.serve)) }
    fn read_partial(&self, _tpe: FileType, _id: &crate::id::Id, _c: bool, offset: u32, length: u32) -> RusticResult<Bytes> {
        let (o, l) = (offset as usize, length as usize);
        if o > self.serve.len() || l > self.serve.len() - o { return Err(RusticError::new(ErrorKind::Backend, "outside")); }
        Ok(Bytes::from_static(&self.serve[o..o + l]))
    }
    fn warmup_path(&self, _tpe: FileType, _id: &crate::id::Id) -> String { String::new() }
}
impl WriteBackend for RecBe {
    fn create(&self) -> RusticResult<()> { Ok(()) }
    fn write_bytes(&self, tpe: FileType, id: &crate::id::Id, c: bool, content: BytesList) -> RusticResult<()> {
        if self.n_write.fetch_add(1, SeqCst) == 0 {
            self.tpe.store(tpe_u8(tpe), SeqCst);
            self.cacheable.store(c, SeqCst);
            let raw = crate::id::verif_harness::bytes(id);
            let mut k = 0;
            while k < 32 { self.id[k].store(raw[k], SeqCst); k += 1; }
            let mut n = 0usize;
            for b in content.slice() {
                let mut i = 0;
                while i < b.len() { if n < SINK_CAP { self.bytes[n].store(b[i], SeqCst); } n += 1; i += 1; }
            }
            self.len.store(n as u32, SeqCst);
        }
        std::mem::forget(content);
        Ok(())
    }
    fn remove(&self, _tpe: FileType, _id: &crate::id::Id, _c: bool) -> RusticResult<()> { Ok(()) }
}

// ---------------------------------------------------------------------------
// native replay flag: the driver's generated playback tests call set_replay() first.  Under verification nothing
// reachable writes the flag, so replay_mode() is constant false.
// ---------------------------------------------------------------------------
static REPLAY: AtomicBool = AtomicBool::new(false);
pub(crate) fn set_replay() { REPLAY.store(true, SeqCst); }
pub(crate) fn replay_mode() -> bool { REPLAY.load(SeqCst) }
