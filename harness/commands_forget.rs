#![allow(warnings, clippy::all, clippy::pedantic, clippy::nursery)]
//@ module: commands::forget
//! C09: retention rules.  jiff's calendar arithmetic (i128 nanoseconds) is out of CBMC's reach for symbolic
//! instants, but forget.rs never does calendar arithmetic itself - it composes jiff accessors.  Snapshots
//! therefore carry concrete, strictly decreasing marker instants (real jiff values; the real Ord sorts them) and
//! the accessors forget.rs uses are stubbed to return the fields of a *symbolic civil time per marker*, constrained
//! by an in-harness proleptic-Gregorian / ISO-8601 model.  Claim: forget.rs is right if jiff's accessors agree
//! with the calendar.  In replay mode (native, no stubs) the same civil times are turned into real Zoned values.
use super::*;
use crate::error::verif_harness as vh;
use crate::repofile::DeleteOption;
use crate::blob::tree::TreeId;
use jiff::{civil::{ISOWeekDate, Weekday, DateTime}, tz::TimeZone, Timestamp};
use std::sync::atomic::{AtomicI16, AtomicI8, Ordering::Relaxed};

pub(crate) const MAXN: usize = 4;
const BASE: i64 = 1_500_000_000;
static T_Y: [AtomicI16; MAXN] = [const { AtomicI16::new(0) }; MAXN];
static T_MO: [AtomicI8; MAXN] = [const { AtomicI8::new(0) }; MAXN];
static T_DOY: [AtomicI16; MAXN] = [const { AtomicI16::new(0) }; MAXN];
static T_H: [AtomicI8; MAXN] = [const { AtomicI8::new(0) }; MAXN];
static T_MI: [AtomicI8; MAXN] = [const { AtomicI8::new(0) }; MAXN];
static T_WY: [AtomicI16; MAXN] = [const { AtomicI16::new(0) }; MAXN];
static T_W: [AtomicI8; MAXN] = [const { AtomicI8::new(0) }; MAXN];

fn midx(z: &Zoned) -> usize {
    let s = z.timestamp().as_second();
    let mut i = 0;
    while i < MAXN { if s == BASE - 1000 * i as i64 { return i; } i += 1; }
    0
}
fn st_year(z: &Zoned) -> i16 { T_Y[midx(z)].load(Relaxed) }
fn st_month(z: &Zoned) -> i8 { T_MO[midx(z)].load(Relaxed) }
fn st_doy(z: &Zoned) -> i16 { T_DOY[midx(z)].load(Relaxed) }
fn st_hour(z: &Zoned) -> i8 { T_H[midx(z)].load(Relaxed) }
fn st_minute(z: &Zoned) -> i8 { T_MI[midx(z)].load(Relaxed) }
const WD: [Weekday; 7] = [Weekday::Monday, Weekday::Tuesday, Weekday::Wednesday, Weekday::Thursday, Weekday::Friday, Weekday::Saturday, Weekday::Sunday];
/// the returned ISOWeekDate only carries the marker index (in its weekday); its year/week accessors are stubbed
fn st_iso_week_date(z: Zoned) -> ISOWeekDate {
    let i = midx(&z);
    std::mem::forget(z);
    ISOWeekDate::new(2016, 10, WD[i]).unwrap()
}
fn wd_idx(d: ISOWeekDate) -> usize { d.weekday().to_monday_zero_offset() as usize }
fn st_iso_year(d: ISOWeekDate) -> i16 { T_WY[wd_idx(d)].load(Relaxed) }
fn st_iso_week(d: ISOWeekDate) -> i8 { T_W[wd_idx(d)].load(Relaxed) }

#[derive(Clone, Copy, PartialEq, Eq)]
pub(crate) struct Civ { y: i16, mo: i8, d: i8, h: i8, mi: i8, doy: i16, wy: i16, w: i8 }

fn is_leap(y: i32) -> bool { (y % 4 == 0 && y % 100 != 0) || y % 400 == 0 }
const CUM: [i32; 12] = [0, 31, 59, 90, 120, 151, 181, 212, 243, 273, 304, 334];
const MDAYS: [i32; 12] = [31, 28, 31, 30, 31, 30, 31, 31, 30, 31, 30, 31];
/// Monday = 1 ... Sunday = 7 for Jan 1st of year y (2000 <= y <= 2028); table from the proleptic Gregorian calendar
/// (2014 Wed, 2015 Thu, 2016 Fri, 2017 Sun, 2018 Mon, 2019 Tue, 2020 Wed, 2021 Fri, 2022 Sat, ...)
fn jan1_weekday(y: i32) -> i32 {
    const JAN1: [i32; 29] = [6, 1, 2, 3, 4, 6, 7, 1, 2, 4, 5, 6, 7, 2, 3, 4, 5, 7, 1, 2, 3, 5, 6, 7, 1, 3, 4, 5, 6];
    JAN1[(y - 2000) as usize]
}
/// year range of the symbolic civil times: 2014..=2021 (quick tier) unless a thorough harness widens it first
static YEAR_LO: std::sync::atomic::AtomicI16 = std::sync::atomic::AtomicI16::new(2014);
static YEAR_HI: std::sync::atomic::AtomicI16 = std::sync::atomic::AtomicI16::new(2021);
fn widen_years() {
    // a full 28-year cycle of the Gregorian calendar between century exceptions: all 14 year shapes
    YEAR_LO.store(2001, std::sync::atomic::Ordering::SeqCst);
    YEAR_HI.store(2028, std::sync::atomic::Ordering::SeqCst);
}
fn weeks_in_year(y: i32) -> i32 { let j = jan1_weekday(y); if j == 4 || (is_leap(y) && j == 3) { 53 } else { 52 } }

/// arbitrary valid civil minute in 2014..=2021 with its derived day-of-year and ISO week date
fn any_civ() -> Civ {
    let y: i16 = kani::any(); let mo: i8 = kani::any(); let d: i8 = kani::any(); let h: i8 = kani::any(); let mi: i8 = kani::any();
    let (ylo, yhi) = (YEAR_LO.load(std::sync::atomic::Ordering::SeqCst), YEAR_HI.load(std::sync::atomic::Ordering::SeqCst));
    kani::assume(y >= ylo && y <= yhi && mo >= 1 && mo <= 12 && h >= 0 && h <= 23 && mi >= 0 && mi <= 59);
    let leap = is_leap(y as i32);
    let dim = MDAYS[(mo - 1) as usize] + if leap && mo == 2 { 1 } else { 0 };
    kani::assume(d >= 1 && (d as i32) <= dim);
    let doy = CUM[(mo - 1) as usize] + d as i32 + if leap && mo > 2 { 1 } else { 0 };
    let wd = (jan1_weekday(y as i32) - 1 + doy - 1) % 7 + 1;
    let mut w = (doy - wd + 10) / 7;
    let mut wy = y as i32;
    if w < 1 { wy -= 1; w = weeks_in_year(wy); } else if w > weeks_in_year(wy) { w = 1; wy += 1; }
    Civ { y, mo, d, h, mi, doy: doy as i16, wy: wy as i16, w: w as i8 }
}
fn civ_key(c: &Civ) -> i64 { ((((c.y as i64) * 13 + c.mo as i64) * 32 + c.d as i64) * 24 + c.h as i64) * 60 + c.mi as i64 }

fn store(i: usize, c: &Civ) {
    T_Y[i].store(c.y, Relaxed); T_MO[i].store(c.mo, Relaxed); T_DOY[i].store(c.doy, Relaxed); T_H[i].store(c.h, Relaxed);
    T_MI[i].store(c.mi, Relaxed); T_WY[i].store(c.wy, Relaxed); T_W[i].store(c.w, Relaxed);
}

fn snap(time: Zoned, idb: u8) -> SnapshotFile {
    SnapshotFile {
        time, program_version: String::new(), parent: None, parents: Vec::new(), tree: TreeId::default(), label: String::new(),
        paths: StringList::default(), hostname: String::new(), username: String::new(), uid: 0, gid: 0, tags: StringList::default(),
        original: None, delete: DeleteOption::NotSet, summary: None, description: None, id: SnapshotId::from(vh::mk_id(idb)),
    }
}

/// marker instant i (verification) or the real instant of civil time c (native replay, no stubs)
fn time_of(i: usize, c: &Civ) -> Zoned {
    if vh::replay_mode() {
        DateTime::new(c.y, c.mo, c.d, c.h, c.mi, (MAXN - i) as i8, 0).unwrap().to_zoned(TimeZone::UTC).unwrap()
    } else {
        Timestamp::from_second(BASE - 1000 * i as i64).unwrap().to_zoned(TimeZone::UTC)
    }
}

#[derive(Clone, Copy, PartialEq, Eq)]
pub(crate) enum Rule { Minutely, Hourly, Daily, Weekly, Monthly, Quarterly, HalfYearly, Yearly }

/// specification of "same period", written from the statement (civil fields / ISO week date)
fn same_period(r: Rule, a: &Civ, b: &Civ) -> bool {
    match r {
        Rule::Yearly => a.y == b.y,
        Rule::HalfYearly => a.y == b.y && (a.mo <= 6) == (b.mo <= 6),
        Rule::Quarterly => a.y == b.y && (a.mo - 1) / 3 == (b.mo - 1) / 3,
        Rule::Monthly => a.y == b.y && a.mo == b.mo,
        Rule::Weekly => a.wy == b.wy && a.w == b.w,
        Rule::Daily => a.y == b.y && a.mo == b.mo && a.d == b.d,
        Rule::Hourly => a.y == b.y && a.mo == b.mo && a.d == b.d && a.h == b.h,
        Rule::Minutely => a.y == b.y && a.mo == b.mo && a.d == b.d && a.h == b.h && a.mi == b.mi,
    }
}
fn set_rule(k: &mut KeepOptions, r: Rule, n: i32) {
    match r {
        Rule::Minutely => k.keep_minutely = Some(n), Rule::Hourly => k.keep_hourly = Some(n), Rule::Daily => k.keep_daily = Some(n),
        Rule::Weekly => k.keep_weekly = Some(n), Rule::Monthly => k.keep_monthly = Some(n), Rule::Quarterly => k.keep_quarter_yearly = Some(n),
        Rule::HalfYearly => k.keep_half_yearly = Some(n), Rule::Yearly => k.keep_yearly = Some(n),
    }
}

/// N snapshots, rule `r` with count n in -1..=N, optionally keep-last m; compares KeepOptions::apply with the
/// reference "newest snapshot of each of the newest n distinct periods, or the oldest snapshot while the counter remains"
fn rule_check<const N: usize>(r: Rule, with_last: bool) {
    let mut civ = [Civ { y: 0, mo: 0, d: 0, h: 0, mi: 0, doy: 0, wy: 0, w: 0 }; N];
    let mut i = 0;
    while i < N { civ[i] = any_civ(); store(i, &civ[i]); i += 1; }
    // marker order = time order: civil times non-increasing from newest to oldest
    let mut i = 0;
    while i + 1 < N { kani::assume(civ_key(&civ[i]) >= civ_key(&civ[i + 1])); i += 1; }
    let n: i32 = kani::any();
    kani::assume(n >= -1 && n <= N as i32);
    let m: i32 = if with_last { kani::any() } else { 0 };
    kani::assume(m >= -1 && m <= N as i32);
    let mut keep = KeepOptions::default();
    set_rule(&mut keep, r, n);
    if with_last { keep.keep_last = Some(m); }
    // the snapshots are handed over oldest first: apply has to sort them
    // built from array literals (typed allocation): with a Vec grown by push() CBMC no longer sees that the
    // BTreeSets inside each snapshot (paths, tags) are empty and walks BTreeMap::clone / drop recursively
    let snaps = if N == 3 {
        vec![snap(time_of(2, &civ[2]), 2), snap(time_of(1, &civ[1]), 1), snap(time_of(0, &civ[0]), 0)]
    } else {
        vec![snap(time_of(3 % N, &civ[3 % N]), 3), snap(time_of(2, &civ[2]), 2), snap(time_of(1, &civ[1]), 1), snap(time_of(0, &civ[0]), 0)]
    };
    let now = time_of(0, &civ[0]);
    let res = keep.apply(snaps, &now);
    let res = match res { Ok(v) => v, Err(e) => { std::mem::forget(e); assert!(false, "apply failed on valid keep options"); return; } };
    assert!(res.len() == N);
    // reference
    let mut cnt = n;
    let mut last_cnt = m;
    let mut i = 0;
    while i < N {
        // newest first in the result
        assert!(res[i].snapshot.id == SnapshotId::from(vh::mk_id(i as u8)));
        let cand = i == 0 || i == N - 1 || !same_period(r, &civ[i], &civ[i - 1]);
        let mut want = false;
        if cand && cnt != 0 { want = true; if cnt > 0 { cnt -= 1; } }
        if with_last && last_cnt != 0 { want = true; if last_cnt > 0 { last_cnt -= 1; } }
        assert!(res[i].keep == want);
        i += 1;
    }
    kani::cover!(N >= 3 && res[1].keep != res[2].keep, "middle snapshots treated differently");
    kani::cover!(N >= 2 && same_period(r, &civ[0], &civ[1]) && civ_key(&civ[0]) != civ_key(&civ[1]), "two different snapshots in one period");
    kani::cover!(N >= 2 && !same_period(r, &civ[0], &civ[1]), "two snapshots in different periods");
    std::mem::forget(res);
}

macro_rules! rule_instance {
    ($name:ident, $n:expr, $rule:expr, $last:expr) => {
        #[kani::proof]
        #[kani::unwind(5)]
        #[kani::stub(std::backtrace::Backtrace::capture, crate::error::verif_harness::stub_backtrace_capture)]
        #[kani::stub(jiff::Zoned::year, st_year)]
        #[kani::stub(jiff::Zoned::month, st_month)]
        #[kani::stub(jiff::Zoned::day_of_year, st_doy)]
        #[kani::stub(jiff::Zoned::hour, st_hour)]
        #[kani::stub(jiff::Zoned::minute, st_minute)]
        #[kani::stub(jiff::Zoned::iso_week_date, st_iso_week_date)]
        #[kani::stub(jiff::civil::ISOWeekDate::year, st_iso_year)]
        #[kani::stub(jiff::civil::ISOWeekDate::week, st_iso_week)]
        pub(crate) fn $name() { rule_check::<$n>($rule, $last); }
    };
}
//@ instance: c09_minutely_3 c09_weekly_3 c09_daily_last_3 c09_hourly_3 c09_monthly_3 c09_quarterly_3 c09_halfyearly_3 c09_yearly_3 c09_weekly_4
//@ harness: c09_minutely_3 c09_weekly_3 c09_daily_last_3
//@ prop: C09
//@ tier: experimental
//@ timeout: 1800
//@ mem: 16
//@ unwindset: ^memcmp#0=34; encode_to|to_hex|hex=70; btree=2; KeepOptions.*matches=11; binary_search_by=12; from_iter|extend|collect|fold=11
//@ kernel: KeepOptions::{apply, matches, is_valid}, equal_minute / equal_week / equal_day (and the predicates they compose), always_false, SnapshotFile::{must_keep, must_delete, cmp}
//@ bound: 3 snapshots with symbolic civil times (any valid minute in 2014..=2021, so every ISO week-year edge 2014/15 .. 2021/22 occurs), non-increasing in time, handed over oldest first; one period rule active with count symbolic in -1..=3 (c09_daily_last_3: plus keep-last with symbolic count); delete marks not set
//@ oracle: result is sorted newest first and snapshot i is kept <=> it is the newest of its period (same minute = same y/m/d/h/mi; same week = same ISO week-year and week; same day = same y/m/d) or the oldest overall, and it is among the first n such candidates (n = -1: all), or keep-last applies; period equality is specified on civil fields / ISO week date
//@ stub: jiff::Zoned::{year, month, day_of_year, hour, minute, iso_week_date}, jiff::civil::ISOWeekDate::{year, week} -> fields of a symbolic civil time per marker instant, constrained by an in-harness Gregorian / ISO-8601 model; Backtrace::capture
//@ assume: jiff's accessors agree with the proleptic Gregorian / ISO-8601 calendar (jiff is trusted); snapshots have distinct time stamps
//@ outside: keep-within variants (Span arithmetic), tags/ids, delete marks, grouping; years outside 2014..=2021; time zones other than UTC
//@ replay: twin
rule_instance!(c09_minutely_3, 3, Rule::Minutely, false);
rule_instance!(c09_weekly_3, 3, Rule::Weekly, false);
rule_instance!(c09_daily_last_3, 3, Rule::Daily, true);
//@ harness: c09_hourly_3 c09_monthly_3 c09_quarterly_3 c09_halfyearly_3 c09_yearly_3 c09_weekly_4
//@ prop: C09
//@ tier: experimental
//@ timeout: 3000
//@ mem: 24
//@ unwindset: ^memcmp#0=34; encode_to|to_hex|hex=70; btree=2; KeepOptions.*matches=11; binary_search_by=12; from_iter|extend|collect|fold=11
//@ kernel: as c09_minutely_3, all nine period predicates
//@ bound: as c09_minutely_3 for the remaining rules; c09_weekly_4: 4 snapshots
//@ oracle: as c09_minutely_3
//@ stub: as c09_minutely_3
//@ assume: jiff's accessors agree with the calendar
//@ replay: twin
rule_instance!(c09_hourly_3, 3, Rule::Hourly, false);
rule_instance!(c09_monthly_3, 3, Rule::Monthly, false);
rule_instance!(c09_quarterly_3, 3, Rule::Quarterly, false);
rule_instance!(c09_halfyearly_3, 3, Rule::HalfYearly, false);
rule_instance!(c09_yearly_3, 3, Rule::Yearly, false);
rule_instance!(c09_weekly_4, 4, Rule::Weekly, false);


// ---------------------------------------------------------------------------
// quick tier: the eight period predicates on two snapshots (no Vec, no sort, no clones: KeepOptions::apply on
// three snapshots does not get through symbolic execution in 30 min - B-tree clone/drop of the empty
// StringLists inside each SnapshotFile, see DESIGN 11)
// ---------------------------------------------------------------------------
fn two_snaps() -> (Civ, Civ, SnapshotFile, SnapshotFile) {
    let c0 = any_civ();
    let c1 = any_civ();
    store(0, &c0);
    store(1, &c1);
    kani::assume(civ_key(&c0) >= civ_key(&c1));
    let s0 = snap(time_of(0, &c0), 0);
    let s1 = snap(time_of(1, &c1), 1);
    (c0, c1, s0, s1)
}
fn predicates_check_civil() {
    let (c0, c1, s0, s1) = two_snaps();
    assert!(equal_minute(&s0, &s1) == same_period(Rule::Minutely, &c0, &c1));
    assert!(equal_hour(&s0, &s1) == same_period(Rule::Hourly, &c0, &c1));
    assert!(equal_day(&s0, &s1) == same_period(Rule::Daily, &c0, &c1));
    assert!(equal_month(&s0, &s1) == same_period(Rule::Monthly, &c0, &c1));
    assert!(equal_quarter_year(&s0, &s1) == same_period(Rule::Quarterly, &c0, &c1));
    assert!(equal_half_year(&s0, &s1) == same_period(Rule::HalfYearly, &c0, &c1));
    assert!(equal_year(&s0, &s1) == same_period(Rule::Yearly, &c0, &c1));
    // symmetric
    assert!(equal_minute(&s1, &s0) == equal_minute(&s0, &s1));
    assert!(!always_false(&s0, &s1));
    kani::cover!(same_period(Rule::Hourly, &c0, &c1) && !same_period(Rule::Minutely, &c0, &c1), "same hour, different minute");
    kani::cover!(same_period(Rule::Daily, &c0, &c1) && c0.h != c1.h && c0.mi == c1.mi, "same day and minute-of-hour, different hour");
    kani::cover!(same_period(Rule::HalfYearly, &c0, &c1) && !same_period(Rule::Quarterly, &c0, &c1), "same half year, different quarter");
    std::mem::forget(s0); std::mem::forget(s1);
}
fn predicates_check_week() {
    let (c0, c1, s0, s1) = two_snaps();
    assert!(equal_week(&s0, &s1) == same_period(Rule::Weekly, &c0, &c1));
    assert!(equal_week(&s1, &s0) == equal_week(&s0, &s1));
    kani::cover!(c0.y != c1.y && same_period(Rule::Weekly, &c0, &c1), "one ISO week across a calendar-year edge");
    kani::cover!(c0.y == c1.y && c0.w == c1.w && c0.wy != c1.wy, "same calendar year and week number, different ISO week-years");
    std::mem::forget(s0); std::mem::forget(s1);
}
macro_rules! pred_instance {
    ($name:ident, $which:ident) => {
        #[kani::proof]
        #[kani::unwind(5)]
        #[kani::stub(std::backtrace::Backtrace::capture, crate::error::verif_harness::stub_backtrace_capture)]
        #[kani::stub(jiff::Zoned::year, st_year)]
        #[kani::stub(jiff::Zoned::month, st_month)]
        #[kani::stub(jiff::Zoned::day_of_year, st_doy)]
        #[kani::stub(jiff::Zoned::hour, st_hour)]
        #[kani::stub(jiff::Zoned::minute, st_minute)]
        #[kani::stub(jiff::Zoned::iso_week_date, st_iso_week_date)]
        #[kani::stub(jiff::civil::ISOWeekDate::year, st_iso_year)]
        #[kani::stub(jiff::civil::ISOWeekDate::week, st_iso_week)]
        pub(crate) fn $name() { $which(); }
    };
}
//@ instance: c09_period_predicates c09_week_predicate
//@ harness: c09_period_predicates c09_week_predicate
//@ prop: C09
//@ tier: quick
//@ timeout: 1500
//@ mem: 6
//@ unwindset: binary_search_by=12
//@ kernel: forget.rs equal_minute, equal_hour, equal_day, equal_week, equal_month, equal_quarter_year, equal_half_year, equal_year, always_false (the predicates KeepOptions::matches uses to decide "newest snapshot of its period")
//@ bound: two snapshots with arbitrary valid civil times in 2014..=2021 (every ISO week-year edge 2014/15 .. 2021/22 occurs), first not older than second
//@ oracle: each predicate holds exactly when both snapshots lie in the same period as the rule states it: same (y,m,d,h,mi) / (y,m,d,h) / (y,m,d) / ISO (week-year, week) / (y,m) / (y,quarter) / (y,half) / y; symmetric
//@ stub: jiff::Zoned::{year, month, day_of_year, hour, minute, iso_week_date}, jiff::civil::ISOWeekDate::{year, week} -> fields of a symbolic civil time per marker instant, constrained by an in-harness Gregorian / ISO-8601 model
//@ assume: jiff's accessors agree with the proleptic Gregorian / ISO-8601 calendar (jiff is trusted)
//@ outside: the counting logic of KeepOptions::matches/apply (thorough-tier harnesses c09_*_3, which do not finish within their cap - recorded as inconclusive, not as proved), keep-within variants, tags/ids, delete marks, grouping
//@ replay: twin
pred_instance!(c09_period_predicates, predicates_check_civil);
pred_instance!(c09_week_predicate, predicates_check_week);

fn predicates_check_civil_wide() { widen_years(); predicates_check_civil(); }
fn predicates_check_week_wide() { widen_years(); predicates_check_week(); }
//@ instance: c09_period_predicates_28y c09_week_predicate_28y
//@ harness: c09_period_predicates_28y c09_week_predicate_28y
//@ prop: C09
//@ tier: thorough
//@ timeout: 3000
//@ mem: 20
//@ unwindset: binary_search_by=12
//@ kernel: as c09_period_predicates
//@ bound: as c09_period_predicates / c09_week_predicate with civil times in 2001..=2028 (a full 28-year cycle: every combination of leap / common year and weekday of January 1st, every 52/53-week ISO year shape)
//@ oracle: as c09_period_predicates
//@ stub: as c09_period_predicates
//@ assume: jiff's accessors agree with the proleptic Gregorian / ISO-8601 calendar (jiff is trusted)
//@ outside: as c09_period_predicates; century years
//@ replay: twin
pred_instance!(c09_period_predicates_28y, predicates_check_civil_wide);
pred_instance!(c09_week_predicate_28y, predicates_check_week_wide);

// ---------------------------------------------------------------------------
// counting logic: ONE call of KeepOptions::matches from an arbitrary counter state (inductive step of
// "the first n candidates of each rule are kept"; apply() calls matches() once per snapshot, newest first)
// ---------------------------------------------------------------------------
fn any_counter() -> Option<i32> {
    if kani::any() { let n: i32 = kani::any(); kani::assume(n >= -1 && n <= 2); Some(n) } else { None }
}

//@ harness: c09_matches_step
//@ prop: C09
//@ tier: thorough
//@ timeout: 3600
//@ mem: 16
//@ unwindset: binary_search_by=12; ^memcmp#0=70; encode_to|to_hex|hex=70; KeepOptions.*matches=11; c09_matches_step=11; matches_step_body=11; matches_step_masked=11
//@ kernel: KeepOptions::matches (counter bookkeeping for keep-last and the eight period rules, keep-ids), the period predicates, always_false
//@ bound: one call for a snapshot and its newer neighbour (both with arbitrary valid civil times in 2014..=2021, or no neighbour), symbolic has_next flag, all nine counters symbolic in {unset, -1, 0, 1, 2}, keep-ids empty / matching the snapshot / matching another id; keep-within and keep-tags unset
//@ oracle: for every rule: the snapshot is a candidate iff it has no newer neighbour, or is the oldest (no next), or lies in another period than its neighbour (keep-last: always); a candidate is kept by that rule iff the rule's counter is not 0, and exactly then a positive counter is decremented by one (-1 stays); a matching keep-id keeps the snapshot without changing how the counters move; the number of reasons equals the number of applicable rules
//@ stub: jiff accessors -> symbolic civil table (as c09_period_predicates); Backtrace::capture
//@ assume: jiff's accessors agree with the calendar
//@ outside: keep-within* (Span arithmetic), keep-tags (BTreeSet<String> matching), apply()'s sort / delete marks / delete-unchanged (experimental c09_*_3)
//@ replay: twin
#[kani::proof]
#[kani::unwind(5)]
#[kani::stub(std::backtrace::Backtrace::capture, crate::error::verif_harness::stub_backtrace_capture)]
#[kani::stub(jiff::Zoned::year, st_year)]
#[kani::stub(jiff::Zoned::month, st_month)]
#[kani::stub(jiff::Zoned::day_of_year, st_doy)]
#[kani::stub(jiff::Zoned::hour, st_hour)]
#[kani::stub(jiff::Zoned::minute, st_minute)]
#[kani::stub(jiff::Zoned::iso_week_date, st_iso_week_date)]
#[kani::stub(jiff::civil::ISOWeekDate::year, st_iso_year)]
#[kani::stub(jiff::civil::ISOWeekDate::week, st_iso_week)]
pub(crate) fn c09_matches_step() { matches_step_body(); }

//@ harness: c09_matches_step_28y
//@ prop: C09
//@ tier: thorough
//@ timeout: 3400
//@ mem: 24
//@ unwindset: binary_search_by=12; ^memcmp#0=70; encode_to|to_hex|hex=70; KeepOptions.*matches=11; matches_step_body=11; matches_step_masked=11
//@ kernel: as c09_matches_step
//@ bound: as c09_matches_step with civil times in 2001..=2028 (a full 28-year cycle of year shapes)
//@ oracle: as c09_matches_step
//@ stub: as c09_matches_step
//@ assume: jiff's accessors agree with the calendar
//@ outside: as c09_matches_step
//@ replay: twin
#[kani::proof]
#[kani::unwind(5)]
#[kani::stub(std::backtrace::Backtrace::capture, crate::error::verif_harness::stub_backtrace_capture)]
#[kani::stub(jiff::Zoned::year, st_year)]
#[kani::stub(jiff::Zoned::month, st_month)]
#[kani::stub(jiff::Zoned::day_of_year, st_doy)]
#[kani::stub(jiff::Zoned::hour, st_hour)]
#[kani::stub(jiff::Zoned::minute, st_minute)]
#[kani::stub(jiff::Zoned::iso_week_date, st_iso_week_date)]
#[kani::stub(jiff::civil::ISOWeekDate::year, st_iso_year)]
#[kani::stub(jiff::civil::ISOWeekDate::week, st_iso_week)]
pub(crate) fn c09_matches_step_28y() { widen_years(); matches_step_body(); }


//@ harness: c09_matches_step_a c09_matches_step_b c09_matches_step_c c09_matches_step_d
//@ prop: C09
//@ tier: quick
//@ timeout: 2400
//@ mem: 10
//@ unwindset: binary_search_by=12; ^memcmp#0=70; encode_to|to_hex|hex=70; KeepOptions.*matches=11; matches_step_masked=11
//@ kernel: as c09_matches_step
//@ bound: as c09_matches_step (one call of KeepOptions::matches, civil times in 2014..=2021, symbolic has_last / has_next), with the symbolic counters restricted per instance, the other counters unset: _a = keep-last, minutely, hourly, daily; _b = weekly, monthly; _c = quarter-yearly, half-yearly, yearly; _d = keep-last + symbolic keep-ids (keep-last and keep-ids do not look at the times: both civil times concrete, 2020-03-01 00:00 and 2020-02-29 23:59).  The instances run in parallel; the harness with all nine counters symbolic at once (c09_matches_step, 12 min) is in the thorough tier
//@ oracle: as c09_matches_step
//@ stub: jiff accessors -> symbolic civil table (as c09_period_predicates); Backtrace::capture
//@ assume: jiff's accessors agree with the calendar
//@ outside: as c09_matches_step; interplay of counters from different instances (thorough tier)
//@ replay: twin
#[kani::proof]
#[kani::unwind(5)]
#[kani::stub(std::backtrace::Backtrace::capture, crate::error::verif_harness::stub_backtrace_capture)]
#[kani::stub(jiff::Zoned::year, st_year)]
#[kani::stub(jiff::Zoned::month, st_month)]
#[kani::stub(jiff::Zoned::day_of_year, st_doy)]
#[kani::stub(jiff::Zoned::hour, st_hour)]
#[kani::stub(jiff::Zoned::minute, st_minute)]
#[kani::stub(jiff::Zoned::iso_week_date, st_iso_week_date)]
#[kani::stub(jiff::civil::ISOWeekDate::year, st_iso_year)]
#[kani::stub(jiff::civil::ISOWeekDate::week, st_iso_week)]
pub(crate) fn c09_matches_step_a() { matches_step_masked(0x00f, false, false); }
#[kani::proof]
#[kani::unwind(5)]
#[kani::stub(std::backtrace::Backtrace::capture, crate::error::verif_harness::stub_backtrace_capture)]
#[kani::stub(jiff::Zoned::year, st_year)]
#[kani::stub(jiff::Zoned::month, st_month)]
#[kani::stub(jiff::Zoned::day_of_year, st_doy)]
#[kani::stub(jiff::Zoned::hour, st_hour)]
#[kani::stub(jiff::Zoned::minute, st_minute)]
#[kani::stub(jiff::Zoned::iso_week_date, st_iso_week_date)]
#[kani::stub(jiff::civil::ISOWeekDate::year, st_iso_year)]
#[kani::stub(jiff::civil::ISOWeekDate::week, st_iso_week)]
pub(crate) fn c09_matches_step_d() { matches_step_masked(0x001, true, true); }
#[kani::proof]
#[kani::unwind(5)]
#[kani::stub(std::backtrace::Backtrace::capture, crate::error::verif_harness::stub_backtrace_capture)]
#[kani::stub(jiff::Zoned::year, st_year)]
#[kani::stub(jiff::Zoned::month, st_month)]
#[kani::stub(jiff::Zoned::day_of_year, st_doy)]
#[kani::stub(jiff::Zoned::hour, st_hour)]
#[kani::stub(jiff::Zoned::minute, st_minute)]
#[kani::stub(jiff::Zoned::iso_week_date, st_iso_week_date)]
#[kani::stub(jiff::civil::ISOWeekDate::year, st_iso_year)]
#[kani::stub(jiff::civil::ISOWeekDate::week, st_iso_week)]
pub(crate) fn c09_matches_step_b() { matches_step_masked(0x030, false, false); }
#[kani::proof]
#[kani::unwind(5)]
#[kani::stub(std::backtrace::Backtrace::capture, crate::error::verif_harness::stub_backtrace_capture)]
#[kani::stub(jiff::Zoned::year, st_year)]
#[kani::stub(jiff::Zoned::month, st_month)]
#[kani::stub(jiff::Zoned::day_of_year, st_doy)]
#[kani::stub(jiff::Zoned::hour, st_hour)]
#[kani::stub(jiff::Zoned::minute, st_minute)]
#[kani::stub(jiff::Zoned::iso_week_date, st_iso_week_date)]
#[kani::stub(jiff::civil::ISOWeekDate::year, st_iso_year)]
#[kani::stub(jiff::civil::ISOWeekDate::week, st_iso_week)]
pub(crate) fn c09_matches_step_c() { matches_step_masked(0x1c0, false, false); }

fn matches_step_body() { matches_step_masked(0x1ff, true, false); }

/// `mask`: which of the nine counters (keep-last, minutely, hourly, daily, weekly, monthly, quarter-yearly, half-yearly,
/// yearly = bits 0..8) are symbolic; the others are unset.  `ids`: whether keep-ids is symbolic (else empty).
fn matches_step_masked(mask: u16, ids: bool, fixed_times: bool) {
    // fixed_times: both civil times concrete (instances whose symbolic counters do not look at the times)
    let c_new = if fixed_times { Civ { y: 2020, mo: 3, d: 1, h: 0, mi: 0, doy: 61, wy: 2020, w: 9 } } else { any_civ() };
    let c_sn = if fixed_times { Civ { y: 2020, mo: 2, d: 29, h: 23, mi: 59, doy: 60, wy: 2020, w: 9 } } else { any_civ() };
    store(0, &c_new);
    store(1, &c_sn);
    kani::assume(civ_key(&c_new) >= civ_key(&c_sn));
    let newer = snap(time_of(0, &c_new), 0x11);
    let sn = snap(time_of(1, &c_sn), 0xab);
    let latest = time_of(0, &c_new);
    let has_last: bool = kani::any();
    let has_next: bool = kani::any();
    let mut keep = KeepOptions::default();
    if mask & 1 != 0 { keep.keep_last = any_counter(); }
    if mask & 2 != 0 { keep.keep_minutely = any_counter(); }
    if mask & 4 != 0 { keep.keep_hourly = any_counter(); }
    if mask & 8 != 0 { keep.keep_daily = any_counter(); }
    if mask & 16 != 0 { keep.keep_weekly = any_counter(); }
    if mask & 32 != 0 { keep.keep_monthly = any_counter(); }
    if mask & 64 != 0 { keep.keep_quarter_yearly = any_counter(); }
    if mask & 128 != 0 { keep.keep_half_yearly = any_counter(); }
    if mask & 256 != 0 { keep.keep_yearly = any_counter(); }
    let ids_mode: u8 = if ids { kani::any() } else { 0 };
    kani::assume(ids_mode < 3);
    if ids_mode == 1 { keep.keep_ids = vec!["ab".to_string()]; }
    if ids_mode == 2 { keep.keep_ids = vec!["cd".to_string()]; }
    let before = [keep.keep_last, keep.keep_minutely, keep.keep_hourly, keep.keep_daily, keep.keep_weekly, keep.keep_monthly, keep.keep_quarter_yearly, keep.keep_half_yearly, keep.keep_yearly];
    let n_reasons = keep.matches(&sn, if has_last { Some(&newer) } else { None }, has_next, &latest).len();
    let after = [keep.keep_last, keep.keep_minutely, keep.keep_hourly, keep.keep_daily, keep.keep_weekly, keep.keep_monthly, keep.keep_quarter_yearly, keep.keep_half_yearly, keep.keep_yearly];
    let rules = [None, Some(Rule::Minutely), Some(Rule::Hourly), Some(Rule::Daily), Some(Rule::Weekly), Some(Rule::Monthly), Some(Rule::Quarterly), Some(Rule::HalfYearly), Some(Rule::Yearly)];
    let mut want = if ids_mode == 1 { 1usize } else { 0 };
    let mut k = 0;
    while k < 9 {
        let same = match rules[k] { None => false, Some(r) => same_period(r, &c_sn, &c_new) };
        let cand = !has_next || !has_last || !same;
        match before[k] {
            None => assert!(after[k].is_none()),
            Some(n) => {
                if cand && n != 0 { want += 1; }
                let expect = if cand && n > 0 { n - 1 } else { n };
                assert!(after[k] == Some(expect));
            }
        }
        k += 1;
    }
    assert!(n_reasons == want);
    kani::cover!(!ids || mask & 1 == 0 || (ids_mode == 1 && before[0] == Some(1)), "kept by id while keep-last still has a slot");
    kani::cover!(has_last && has_next && want == 0, "a snapshot no rule keeps");
    std::mem::forget(keep); std::mem::forget(sn); std::mem::forget(newer); std::mem::forget(latest);
}
