#![allow(warnings, clippy::all, clippy::pedantic, clippy::nursery)]
//@ module: blob
use super::*;
use crate::error::verif_harness as vh;

/// largest end position of a blob inside a pack: packs are flushed at <= 4076 MiB (packer MAX_SIZE)
/// plus at most one more blob and the header, i.e. blob ends stay below 4 GiB - 256 KiB
const MAX_END: u64 = (u32::MAX - constants::MAX_HOLESIZE) as u64;

fn any_loc() -> BlobLocation {
    let l = BlobLocation { offset: kani::any(), length: kani::any(), uncompressed_length: NonZeroU32::new(kani::any()) };
    kani::assume(u64::from(l.offset) + u64::from(l.length) <= MAX_END);
    l
}

//@ harness: c14_coalesce_step_covers_members
//@ prop: C14 C18
//@ tier: quick
//@ timeout: 600
//@ kernel: BlobLocations::{from_blob_location, can_coalesce, append, coalesce, length}; the slice-index arithmetic of restore_contents (bl.offset - offset, bl.offset + bl.length - offset)
//@ bound: a read group in an arbitrary valid state (offset,length symbolic, one representative member anywhere inside it; the SmallVec member list is kept empty and members are tracked by the harness) and an arbitrary next blob location; all u32 values symbolic; one coalesce step (inductive: `append` preserves "group covers its members")
//@ oracle: no arithmetic overflow / panic; if the step coalesces then the merged (offset,length) contains the old member and the new blob, is <= LIMIT_PACK_READ, keeps the group's start, and the slice indices restore computes for every member are in range of the bytes read; if it does not coalesce both inputs come back unchanged
//@ assume: every blob lies inside its pack and packs end below 4 GiB - 256 KiB (packer MAX_SIZE = 4076 MiB + one blob + header); group invariant: members lie inside [offset, offset+length) (established by from_blob_location, preserved by append)
//@ outside: the file-system side of restore (merge walk, verification of existing files, parallel writer, metadata, deletion)
#[kani::proof]
#[kani::unwind(4)]
pub(crate) fn c14_coalesce_step_covers_members() {
    // group state: one representative member m inside the group range
    let m = any_loc();
    let g_off: u32 = kani::any();
    let g_len: u32 = kani::any();
    kani::assume(u64::from(g_off) + u64::from(g_len) <= MAX_END);
    kani::assume(m.offset >= g_off && u64::from(m.offset) + u64::from(m.length) <= u64::from(g_off) + u64::from(g_len));
    // the member list itself is a SmallVec (append/insert on SmallVec is out of CBMC's reach: > 8 GB for a
    // 2-element append), so members are tracked by the harness and the SmallVecs stay empty
    let g: BlobLocations<u8> = BlobLocations { offset: g_off, length: g_len, blobs: SmallVec::new() };
    let (go, gl) = (g.offset, g.length);
    let b = any_loc();
    let other: BlobLocations<u8> = BlobLocations { offset: b.offset, length: b.length, blobs: SmallVec::new() };
    let fresh = BlobLocations::from_blob_location(b, ());
    assert!(fresh.offset == b.offset && fresh.length == b.length);
    std::mem::forget(fresh);
    match g.coalesce(other) {
        Ok(merged) => {
            assert!(merged.offset == go);
            assert!(merged.length <= constants::LIMIT_PACK_READ);
            // covers the old member and the new blob, and restore's slice indices are in range
            for bl in [m, b] {
                let start = bl.offset - merged.offset;
                let end = bl.offset + bl.length - merged.offset;
                assert!(start <= end && end <= merged.length);
            }
            // no overlap: the new blob starts at or after the old range end, within the allowed hole
            assert!(b.offset >= go + gl && b.offset - (go + gl) <= constants::MAX_HOLESIZE);
            kani::cover!(b.offset > go + gl, "coalesced across a hole");
            kani::cover!(merged.length == constants::LIMIT_PACK_READ, "merged read exactly at the limit");
            std::mem::forget(merged);
        }
        Err((a, o)) => {
            assert!(a.offset == go && a.length == gl);
            assert!(o.offset == b.offset && o.length == b.length);
            kani::cover!(true, "not coalesced");
            std::mem::forget(a); std::mem::forget(o);
        }
    }
}

//@ harness: c14_data_length
//@ prop: C14 C18
//@ tier: quick
//@ timeout: 300
//@ kernel: BlobLocation::data_length
//@ bound: any location with length >= 32 when uncompressed
//@ oracle: no underflow; plaintext length = length - 32 for uncompressed entries, the recorded length otherwise
//@ assume: an uncompressed index entry has length >= 32 (every stored blob carries 16 bytes nonce + 16 bytes MAC; index files are authenticated, so entries are ones a packer wrote)
#[kani::proof]
pub(crate) fn c14_data_length() {
    let l = any_loc();
    kani::assume(l.uncompressed_length.is_some() || l.length >= 32);
    let d = l.data_length();
    match l.uncompressed_length { None => assert!(d == l.length - 32), Some(u) => assert!(d == u.get()) }
    kani::cover!(l.uncompressed_length.is_none() && l.length == 32, "empty plaintext edge");
}
