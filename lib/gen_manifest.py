#!/usr/bin/env python3
"""writes /verif/MANIFEST.json from the table below"""
import json, os, subprocess
V = os.path.dirname(os.path.dirname(os.path.abspath(__file__)))
hooks = subprocess.run(["git", "-C", "/repo", "log", "--format=%h %s"], capture_output=True, text=True).stdout.splitlines()
hook_commits = [l.split()[0] for l in hooks if l.split(" ", 1)[1].startswith("verif hooks")]
TECH = "bounded model checking of the compiled Rust with Kani 0.68 / CBMC 6.11 (SAT, CaDiCaL): symbolic inputs, unwinding assertions on, counterexamples replayed natively"
LEVEL = lambda text, ref: {"category": "model_checking", "text": text, "design_ref": ref}
claimed = {
 "C01": ("four sequential kernels on the backup->restore path are decided for all inputs within small bounds: ranged-read start points, blob framing and repository-file framing through the real DecryptBackend (model key, zstd/hash stubs); the multi-threaded pipeline itself is outside",
         "bounds per harness in evidence; ideal-AEAD model key, invertible zstd model, checksum hash model; archiver/packer threads, file system, metadata are outside the claim", "DESIGN 4/C01"),
 "C05": ("per-pack kernel only: if check_pack returns Ok without recording a finding then the file hashes to the indexed pack id, the trailer length and the decrypted trailer (independent reference decoder) equal what the index records, and every blob read where the index places it decrypts to content whose hash is its id; with a key that rejects, check_pack never comes back clean",
         "one pack shape (two uncompressed 34-byte blobs, 178 symbolic bytes); AEAD verdict is a harness constant; checksum model for SHA-256; binrw decoders replaced by a reference decoder; which packs are read, the tree walk and the index-vs-listing comparison (threads, B-trees) are outside", "DESIGN 11.3"),
 "C06": ("one step of the real rabin ChunkIter::next from a mid-stream iterator state (inductive over chunks) is decided for all stream bytes within small shapes: no panic, chunk non-empty / within max / at least min unless the stream ends / equal to the next unread bytes, remainder preserved; relational: the cut does not depend on the look-ahead split nor on the hash state left by the previous chunk (2-byte- and 8-byte-window instances); degenerate parameter triples are refused; fixed-size chunker partition under arbitrary short reads",
         "five concrete parameter triples with concrete look-ahead/stream lengths (all bytes symbolic); std read_to_end replaced by its contract model; equality of the rolling fingerprint with the mathematical Rabin fingerprint and the production 64-byte-window relational harnesses are experimental (do not finish) and outside the claim", "DESIGN 4/C06, 11.3"),
 "C04": ("framing layer only: every byte string written through the real DecryptBackend is key.encrypt_data output and its id is the hash of exactly those bytes; a decryption failure or a wrong recorded length is an error on every read path (no fallback to raw bytes); cryptographic strength is not decidable by a bounded solver",
         "model keys (format-checking AEAD; harness-controlled MAC verdict); zstd/hash stubs; tamper detection with a content-sensitive model MAC is experimental (> 30 GB); AES/Poly1305/scrypt, keys, passwords outside", "DESIGN 4/C04, 11.3"),
 "C08": ("accounting and size logic around the binrw (de)serialisation: HeaderEntry <-> IndexBlob mapping is lossless, header size / pack size formulas, BasicPacker offsets/lengths/duplicate skipping; PackHeader::from_file hands exactly the decrypted trailer to the decoder for every size hint",
         "binrw byte encoding stubbed; PackHeader::from_file's read arithmetic is covered for one well-formed pack and seven size hints; repair_index and the threaded pack writer outside", "DESIGN 4/C08, 11.3"),
 "C09": ("the eight period predicates agree with the Gregorian / ISO-8601 specification for any two snapshots in 2014..2021; one step of KeepOptions::matches from any counter state keeps exactly the candidates with a non-zero counter and decrements counters correctly (inductive step of the counting rule)",
         "jiff accessors stubbed by a symbolic civil table (jiff trusted); keep-within, tags, delete marks, apply()'s sort outside (experimental harnesses do not finish)", "DESIGN 4/C09, 11.3"),
 "C11": ("Parent::process for a file node against a parent tree: Matched only for equal type/size/mtime/(ctime) with all blobs indexed, content taken from the parent; NotFound/NotMatched otherwise",
         "Node::name stubbed (names without escapes); directories, several parents, pipeline outside", "DESIGN 4/C11, 11.3"),
 "C14": ("the blob read-range arithmetic every restore read goes through (coalescing, slice indices, plaintext length) is decided for all u32 values; path containment and the file-system side are outside (measured out of reach)",
         "blobs end below 4 GiB - 256 KiB; uncompressed entries >= 32 bytes; SmallVec member lists kept empty", "DESIGN 4/C14"),
 "C15": ("DryRunBackend never forwards a mutation; delete_snapshots and apply_config refuse on an append-only repository before touching storage; a refused config change leaves the config untouched",
         "mock Repository by struct literal; thread-reaching callees behind the guards are replaced by recording cuts; prune/repair/rewrite guards: see evidence for which entry points are covered", "DESIGN 4/C15"),
 "C16": ("HotColdBackend write/remove keep the invariant 'cold-present => hot-present with equal bytes, data packs never hot' from every state under every single fault or crash point (inductive step); read routing",
         "content addressing assumed; config files and warm-up ordering inside threaded commands outside", "DESIGN 4/C16"),
 "C17": ("index collector, binary-search lookup in all three index modes and pack iteration are compared with a linear scan of the input for all contents within small shapes",
         "entry vectors assumed sorted (rayon sort trusted); homogeneous packs; collector vectors pre-reserved", "DESIGN 4/C17"),
 "C18": ("ConfigOptions::apply frame/downgrade/no-panic for all option and config values; accepted configs are usable; PackSizer and prune limit arithmetic never overflow; refused change leaves config untouched",
         "error text construction stubbed; repository sizes <= 1 PiB per blob type; smoke run of backup/check/restore outside", "DESIGN 4/C18"),
}
not_applicable = {
 "C02": "prune plan logic is keyed by 32-byte ids in BTreeMap/BTreeSet; the smallest instance (2 packs, empty maps) does not get through CBMC's symbolic execution in 20 min (measured, DESIGN 4/C02)",
 "C03": "quantifies over prefixes of backend-operation sequences produced by spawned packer threads, channels and rayon pools; Kani cannot compile catch_unwind/thread code (ICE) and has no concurrency model",
 "C07": "dedup filters are closures inside the spawned packer thread plus a BTreeSet<BlobId>; neither is encodable (threads: ICE; B-tree: no result in 20 min)",
 "C10": "interleavings of two commands; no concurrency in Kani, and the sequential reformulation runs through the same B-tree-keyed prune plan as C02",
 "C13": "a statement over thread interleavings and latencies; Kani treats atomics sequentially and cannot compile the pipeline code",
 "C19": "Cache is std::fs calls plus a HashMap<Id,u32>; no file-system model in CBMC, and stubbing it would check the stub",
 "C20": "LocalBackend/opendal are sequences of file-system calls; the property is about OS rename/listing semantics, not encodable",
}
pending = {}
not_applicable["C12"] = "copy/merge/rewrite/repair kernels move Node/Tree values through String- and B-tree-heavy code (merge_nodes, RepairState) or live in packer threads; not encodable within the budget after C11 needed 3.5 min for a single node"
checks = []
for pid, (text, note, ref) in sorted(claimed.items()):
    checks.append({
        "property_id": pid,
        "quick_cmd": f"./check {pid} --tier quick",
        "thorough_cmd": f"./check {pid} --tier thorough",
        "evidence_file": f"/verif/evidence/{pid}.json",
        "replay_cmd_template": "./check --replay {path}",
        "engine": "kani-cbmc",
        "level_claimed": LEVEL(text, ref),
        "level_note": note,
        "technique": TECH,
    })
m = {
 "version": 1,
 "setup_cmd": "mkdir -p /verif/.work && cd /repo && (CARGO_NET_OFFLINE=true cargo kani -p rustic_core --target-dir /verif/.work/target -Z stubbing -Z unstable-options --only-codegen --exact --harness blob::verif_harness::c14_data_length >/verif/.work/setup.log 2>&1 || true)",
 "hooks": {
  "guard": "cfg(kani)",
  "enable": "cargo kani sets --cfg kani; each hooked module then includes /verif/harness/<module>.rs as its child module verif_harness (checks run `cargo kani --only-codegen` on /repo's working tree, then goto-cc/goto-instrument/cbmc)",
  "baseline_off_cmd": "cd /repo && (cargo nextest run --workspace --no-fail-fast --test-threads 8 --offline || cargo test --workspace --no-fail-fast --offline)",
  "source_commits": hook_commits,
  "add_only": True,
 },
 "engines": [{"name": "kani-cbmc", "path": "/verif/lib/driver.py", "serves_properties": sorted(claimed),
              "kind_free_text": "bounded model checking of the compiled Rust (Kani 0.68 codegen -> goto-cc/goto-instrument -> CBMC 6.11 + CaDiCaL); counterexamples replayed natively through Kani concrete playback in dev and release profile"}],
 "checks": checks,
 "not_applicable": [{"property_id": k, "reason": v} for k, v in sorted({**not_applicable, **pending}.items())],
 "notes": "See DESIGN.md. Exit codes of ./check: 0 proved within bounds, 1 replay-confirmed violation (VIOLATION line), 2 inconclusive (never an alarm).",
}
json.dump(m, open(os.path.join(V, "MANIFEST.json"), "w"), indent=1)
print("claimed", sorted(claimed), "n/a", sorted({**not_applicable, **pending}))
