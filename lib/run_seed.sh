#!/bin/bash
# usage: run_seed.sh <seed-id> <prop> [--only REGEX]
# Runs ./check against the seeded change in a scratch worktree of /repo (/tmp/seedrepo), with its own work, evidence and
# replay directories, so that /repo, /verif/evidence and concurrently running checks are not disturbed.
# (Equivalent to: git -C /repo apply <patch>; ./check ...; git -C /repo checkout -- .)
id=$1; prop=$2; shift 2
W=/tmp/seedrepo
[ -d $W ] || git -C /repo worktree add -q --detach $W HEAD
( cd $W && git checkout -q --detach $(git -C /repo rev-parse HEAD) && git checkout -q -- . && ( git apply /verif/seeded/$id/patch.diff 2>/dev/null || git apply /verif/seeded/$id/patch_on_fixed_tree.diff ) ) || { echo "$id: patch does not apply" | tee -a /verif/seeded/results.txt; exit 8; }
cd /verif
VERIF_REPO=$W VERIF_WORK=/verif/.work-seed VERIF_EVIDENCE=/verif/.work-seed/evidence VERIF_REPLAYS=/verif/.work-seed/replays ./check $prop "$@" > /verif/seeded/$id/check_$prop.log 2>&1; rc=$?
( cd $W && git checkout -q -- . )
echo "$id $prop rc=$rc violations=$(grep -c '^VIOLATION' /verif/seeded/$id/check_$prop.log) $(grep -E '^\s+(proved|counterexample|inconclusive)' /verif/seeded/$id/check_$prop.log | awk '{print $1":"$2}' | tr '\n' ' ')" | tee -a /verif/seeded/results.txt
