#!/bin/bash
# runs every registered check of the given tier sequentially; prints one line per property
tier=${1:-quick}; shift
props=${@:-C01 C04 C05 C06 C08 C09 C11 C14 C15 C16 C17 C18}
cd /verif
for p in $props; do
  s=$(date +%s)
  ./check $p --tier $tier > /verif/.work/last_$p.log 2>&1; rc=$?
  echo "$p rc=$rc $(( $(date +%s) - s ))s $(grep -a -E '^\[C[0-9]+/' /verif/.work/last_$p.log | tail -1 | cut -c1-160)"
done
