#!/usr/bin/env python3
"""prints the markdown rows of DESIGN.md 11.5 from seeded/*/meta.json and the last result per seed in seeded/results.txt"""
import json, glob, os, re
V = os.path.dirname(os.path.dirname(os.path.abspath(__file__)))
last = {}
lines = []
for f in ("seeded/results_early.txt", "seeded/results.txt"):
    if os.path.exists(os.path.join(V, f)):
        lines += open(os.path.join(V, f)).readlines()
for l in lines:
    m = re.match(r"(C\d\d-\d+) (C\d\d) rc=(\d+) violations=(\d+) (.*)", l)
    if m:
        last[m.group(1)] = (m.group(2), int(m.group(3)), int(m.group(4)), m.group(5))
WHY = {
 "C17-1": "outside: `GlobalIndex::new_from_collector` sits behind `stream_all` (rayon/channel: Kani ICE) and `into_index` (in-place collect, 11.2)",
 "C16-1": "outside: `get_tree_packs` (B-trees + rayon stream)",
 "C15-1": "outside: `prune_repository`'s guard cannot be isolated (threads behind it: Kani ICE)",
 "C15-2": "outside: `repair_index` (listing, rayon, indexer)",
 "C14-1": "outside: `get_matching_file` is file-system metadata (no FS model)",
 "C04-1": "outside: key generation (`Key::new`, RNG) is cryptographic strength, not framing",
 "C11-1": "outside: option plumbing in `commands/backup.rs` (archiver pipeline); `Parent` itself is checked with both flags symbolic",
 "C05-2": "outside: `check_trees` (threads, tree streamer) decides which packs are read",
}
rows = []
for mf in sorted(glob.glob(os.path.join(V, "seeded/*/meta.json"))):
    d = json.load(open(mf))
    sid = d["seed"]
    prop, rc, viol, detail = last.get(sid, ("?", -1, 0, "not run"))
    cex = [x.split(":", 1)[1] for x in detail.split() if x.startswith("counterexample:")]
    if rc == 1 and viol:
        res, by = "**caught**", ", ".join(f"`{c}`" for c in cex)
    elif rc == 0:
        res, by = "outside (exit 0)", WHY.get(sid, "")
    elif rc == 2:
        res, by = "not confirmed (exit 2)", "counterexample in " + ", ".join(f"`{c}`" for c in cex) + " but no native confirmation"
    else:
        res, by = f"rc={rc}", detail[:80]
    rows.append(f"| {sid} | {d['change']} | {d['needs_to_manifest']} | {res} | {by} |")
print("\n".join(rows))
