#!/bin/bash
# usage: verify_seed.sh <seed-id> <patch.diff> <demo.rs> <target source file (relative to repo)> <cargo test filter> [extra cargo test args]
# Confirms in a scratch worktree of /repo (outside /repo and /verif) that the seeded change
#  (1) applies and compiles, (2) the demo FAILS with it and PASSES without it, (3) the existing suite passes with it.
# The demo is appended inside the last `mod tests { ... }` of the target file (before its closing brace),
# or copied as an integration test if the target is under crates/core/tests/.
set -u
id=$1; patch=$2; demo=$3; target=$4; filter=$5; shift 5
W=/tmp/seedverify; export CARGO_TARGET_DIR=${SEEDVERIFY_TARGET:-/tmp/seedverify-target} CARGO_NET_OFFLINE=true; unset RUST_BACKTRACE
[ -d $W ] || git -C /repo worktree add -q --detach $W HEAD
cd $W && git checkout -q --detach $(git -C /repo rev-parse HEAD) && git checkout -q -- . && git clean -qfd crates
splice() { python3 - "$1" "$2" <<'PY'
import sys,re
tgt,demo=sys.argv[1],sys.argv[2]
d=open(demo).read()
if '/tests/' in tgt and not tgt.endswith('integration.rs'):
    open(tgt,'w').write(d); sys.exit(0)
s=open(tgt).read()
i=s.rfind('}')
# last closing brace of the file = end of mod tests (hook lines come after it in hooked files)
m=list(re.finditer(r'\n}\n', s))
hook=s.find('\n#[cfg(kani)]')
cands=[x for x in m if hook<0 or x.start()<hook]
pos=cands[-1].start()+1
s=s[:pos]+d+"\n"+s[pos:]
open(tgt,'w').write(s)
PY
}
out=/verif/seeded/$id; mkdir -p $out
echo "== clean tree: demo must pass"
splice $target $demo
cargo test -p rustic_core --offline "$@" -- $filter 2>&1 | tail -15 > $out/demo_clean.txt; grep -E "^test result|error(\[|:)" $out/demo_clean.txt | head -5
git checkout -q -- . ; git clean -qfd crates
echo "== mutated tree: demo must fail"
git apply $patch || { echo "PATCH DOES NOT APPLY"; exit 3; }
splice $target $demo
cargo test -p rustic_core --offline "$@" -- $filter 2>&1 | tail -25 > $out/demo_mutated.txt; grep -E "^test result|error(\[|:)" $out/demo_mutated.txt | head -5
git checkout -q -- $target 2>/dev/null; git clean -qfd crates; git apply $patch 2>/dev/null
echo "== mutated tree: existing suite must pass"
cargo test -p rustic_core --offline -- --test-threads 4 2>&1 | grep -E "^test result|FAILED|failed" > $out/suite_mutated.txt; cat $out/suite_mutated.txt | head -12
git checkout -q -- . ; git clean -qfd crates
