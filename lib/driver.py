#!/usr/bin/env python3
"""
/verif/check driver: bounded model checking of rustic_core's compiled code with
Kani 0.68 / CBMC 6.11 (see DESIGN.md section 1).

  check <Cxx> [--tier quick|thorough] [--only REGEX] [--jobs N] [--no-replay]
  check --list
  check --replay <path>

Exit codes: 0 = every harness proved within its bound (KNOWN-FINDING lines
allowed), 1 = a replay-confirmed violation not listed in known_findings.json
(prints "VIOLATION property=<id> replay=<path>"), 2 = inconclusive (timeout,
OOM, tool error, harness needs porting, vacuity witness missing,
counterexample that does not reproduce natively).
"""
import argparse
import fcntl
import threading
import fnmatch
import glob
import json
import os
import re
import resource
import shutil
import subprocess
import sys
import threading
import time
from concurrent.futures import ThreadPoolExecutor

VERIF = os.path.dirname(os.path.dirname(os.path.abspath(__file__)))
REPO = os.environ.get("VERIF_REPO", "/repo")
WORK = os.environ.get("VERIF_WORK", os.path.join(VERIF, ".work"))
HARNESS_DIR = os.path.join(VERIF, "harness")
EVIDENCE_DIR = os.environ.get("VERIF_EVIDENCE", os.path.join(VERIF, "evidence"))
REPLAY_DIR = os.environ.get("VERIF_REPLAYS", os.path.join(VERIF, "replays"))
KANI_LIB_C = os.path.expanduser("~/.kani/kani-0.68.0/library/kani/kani_lib.c")
CBMC_FLAGS = [
    "--no-malloc-may-fail", "--no-undefined-shift-check", "--no-signed-overflow-check",
    "--nan-check", "--no-self-loops-to-assumptions", "--no-pointer-primitive-check",
    "--object-bits", "16", "--sat-solver", "cadical", "--slice-formula",
]
# Not part of kani-driver's flag set: CBMC's field sensitivity treats arrays of up to N elements as
# scalars instead of handing them to the array theory.  The default (64) is below the size of almost every
# heap buffer std allocates (a Vec<(PackId,u32)> grows to 4*36 = 144 bytes); with it, a two-element
# IndexCollector::extend needs > 12 GB of SAT memory, with 1024 it needs 0.2 GB / 4 s (measured).
# Sound: it only changes the encoding.  Per-harness override:  //@ fsarray: N
FS_ARRAY_DEFAULT = 64
# property classes whose failure is a candidate counterexample of the checked code
CEX_CLASSES = {
    "assertion", "overflow", "array_bounds", "division-by-zero", "pointer_dereference",
    "pointer_arithmetic", "pointer", "bounds", "enum-range-check", "NaN", "pointer_primitives",
    "precondition", "undefined-shift", "memory-leak", "unreachable", "safety_check",
}
# classes whose failure means the *encoding* is insufficient (never a violation)
INCONCLUSIVE_CLASSES = {"unwind", "recursion", "unsupported_construct", "sanity_check",
                        "internal", "unstable", "unwinding assertion"}


# --------------------------------------------------------------------------
# harness metadata: "//@ key: value" blocks in /verif/harness/*.rs
# --------------------------------------------------------------------------
class Spec:
    def __init__(self):
        self.names = []          # harness fn names or globs
        self.props = []
        self.tier = "quick"      # quick => runs in quick and thorough
        self.timeout = 600
        self.mem = 8             # GB (RLIMIT_AS)
        self.unwindset = []      # (regex, n)
        self.bound = []
        self.assume = []
        self.stubnote = []
        self.outside = []
        self.kernel = []
        self.oracle = []
        self.replay = "playback"  # playback | twin:<fn> | none
        self.fsarray = FS_ARRAY_DEFAULT
        self.file = None
        self.module = None


def parse_harness_files():
    specs = []
    for path in sorted(glob.glob(os.path.join(HARNESS_DIR, "*.rs"))):
        module = None
        cur = None
        for line in open(path, encoding="utf-8"):
            m = re.match(r"\s*//@\s*([a-z_]+)\s*:\s*(.*?)\s*$", line)
            if not m:
                if cur is not None and line.strip() and not line.strip().startswith("//"):
                    cur = None
                continue
            k, v = m.group(1), m.group(2)
            if k == "module":
                module = v
                continue
            if k == "harness":
                cur = Spec()
                cur.file = path
                cur.module = module
                cur.names = v.split()
                specs.append(cur)
                continue
            if cur is None:
                continue
            if k == "prop":
                cur.props += v.split()
            elif k == "tier":
                cur.tier = v
            elif k == "timeout":
                cur.timeout = int(v)
            elif k == "mem":
                cur.mem = int(v)
            elif k == "unwindset":
                for part in v.split(";"):
                    part = part.strip()
                    if part:
                        rx, n = part.rsplit("=", 1)
                        cur.unwindset.append((rx.strip(), int(n)))
            elif k == "bound":
                cur.bound.append(v)
            elif k == "assume":
                cur.assume.append(v)
            elif k == "stub":
                cur.stubnote.append(v)
            elif k == "outside":
                cur.outside.append(v)
            elif k == "kernel":
                cur.kernel.append(v)
            elif k == "oracle":
                cur.oracle.append(v)
            elif k == "replay":
                cur.replay = v
            elif k == "fsarray":
                cur.fsarray = int(v)
    return specs


def harness_fn_names(path):
    """all #[kani::proof] fn names in a harness file, incl. macro-generated ones
    declared as  //@ instance: name  lines."""
    names = []
    txt = open(path, encoding="utf-8").read()
    for m in re.finditer(r"#\[kani::proof\](?:\s*#\[[^\]]*\])*\s*(?:pub(?:\([a-z]+\))?\s+)?fn\s+([A-Za-z0-9_]+)", txt):
        names.append(m.group(1))
    for m in re.finditer(r"//@\s*instance\s*:\s*(.*)", txt):
        names += m.group(1).split()
    return [n for n in names if not n.startswith("$")]


def select(specs, prop, tier, only):
    sel = []   # (pretty_name, fn, spec)
    for s in specs:
        if prop not in s.props:
            continue
        # tiers: quick < thorough; "experimental" harnesses (known not to finish within their cap; kept for the
        # record) run only with --tier experimental and are not part of any registered command
        if tier == "quick" and s.tier != "quick":
            continue
        if tier == "thorough" and s.tier not in ("quick", "thorough"):
            continue
        fns = harness_fn_names(s.file)
        for fn in fns:
            if any(fnmatch.fnmatchcase(fn, pat) for pat in s.names):
                if only and not re.search(only, fn):
                    continue
                pretty = f"{s.module}::verif_harness::{fn}"
                if all(p != pretty for p, _, _ in sel):
                    sel.append((pretty, fn, s))
    return sel


# --------------------------------------------------------------------------
# codegen
# --------------------------------------------------------------------------
def run_codegen(prop, sel, log):
    target = os.path.join(WORK, "target")
    os.makedirs(target, exist_ok=True)
    gotodir = os.path.join(WORK, prop, "goto")
    shutil.rmtree(gotodir, ignore_errors=True)
    os.makedirs(gotodir)
    cmd = ["cargo", "kani", "-p", "rustic_core", "--target-dir", target,
           "-Z", "stubbing", "-Z", "unstable-options", "--only-codegen", "--exact"]
    for pretty, _, _ in sel:
        cmd += ["--harness", pretty]
    env = dict(os.environ, CARGO_NET_OFFLINE="true", CARGO_TERM_COLOR="never")
    lockf = open(os.path.join(WORK, "codegen.lock"), "w")
    fcntl.flock(lockf, fcntl.LOCK_EX)
    try:
        t0 = time.time()
        p = subprocess.run(cmd, cwd=REPO, env=env, stdout=subprocess.PIPE,
                           stderr=subprocess.STDOUT, text=True, errors="replace")
        open(log, "w").write(" ".join(cmd) + "\n" + p.stdout)
        dt = time.time() - t0
        if p.returncode != 0:
            return None, dt, classify_codegen_failure(p.stdout)
        metas = glob.glob(os.path.join(target, "kani", "*", "debug", "build", "rustic_core",
                                       "*", "out", "rustic_core-*.kani-metadata.json"))
        metas += glob.glob(os.path.join(target, "kani", "*", "debug", "deps",
                                        "rustic_core-*.kani-metadata.json"))
        want = {p for p, _, _ in sel}
        best = None
        for mf in sorted(metas, key=os.path.getmtime, reverse=True):
            try:
                md = json.load(open(mf))
            except Exception:
                continue
            have = {h["pretty_name"] for h in md.get("proof_harnesses", [])}
            if want <= have and len(have) == len(want):
                best = md
                break
        if best is None:
            return None, dt, "metadata for the requested harness set not found (harness name typo?)"
        out = {}
        for h in best["proof_harnesses"]:
            if h["pretty_name"] in want:
                src = h["goto_file"]
                dst = os.path.join(gotodir, h["pretty_name"].replace("::", "__") + ".symtab.out")
                shutil.copyfile(src, dst)
                out[h["pretty_name"]] = dict(h, goto_copy=dst)
        return out, dt, None
    finally:
        fcntl.flock(lockf, fcntl.LOCK_UN)
        lockf.close()


def classify_codegen_failure(txt):
    if "internal compiler error" in txt or "Kani unexpectedly panicked" in txt or "thread 'rustc' panicked" in txt:
        return "Kani internal compiler error during codegen (see codegen.log)"
    m = re.search(r"error(\[E\d+\])?: .*", txt)
    first = m.group(0) if m else "unknown error"
    in_harness = "/verif/harness/" in txt and re.search(r"-->\s+/verif/harness/", txt)
    if in_harness:
        return f"harness does not compile against the current tree (needs porting): {first}"
    return f"rustic_core does not compile under cargo kani: {first}"


# --------------------------------------------------------------------------
# per-harness pipeline (mirrors kani-driver 0.68: goto-cc, goto-instrument, cbmc)
# --------------------------------------------------------------------------
def limit(mem_gb):
    def f():
        b = int(mem_gb * 1024 ** 3)
        resource.setrlimit(resource.RLIMIT_AS, (b, b))
        os.setsid()
    return f


def sh(cmd, logf, timeout=300, mem=8):
    logf.write("$ " + " ".join(cmd) + "\n")
    logf.flush()
    p = subprocess.run(cmd, stdout=logf, stderr=subprocess.STDOUT, timeout=timeout,
                       preexec_fn=limit(mem))
    return p.returncode


def show_loops(outfile):
    p = subprocess.run(["cbmc", "--show-loops", outfile], stdout=subprocess.PIPE,
                       stderr=subprocess.STDOUT, text=True, errors="replace")
    loops = []
    cur = None
    for line in p.stdout.splitlines():
        m = re.match(r"Loop (\S+):", line)
        if m:
            cur = m.group(1)
            continue
        m = re.match(r"\s+file (\S+) line (\d+) .*function (.*)$", line)
        if m and cur:
            loops.append((cur, m.group(1), int(m.group(2)), m.group(3)))
            cur = None
    return loops


def run_harness(pretty, fn, spec, meta, prop):
    hdir = os.path.join(WORK, prop, "run")
    os.makedirs(hdir, exist_ok=True)
    base = os.path.join(hdir, fn)
    log = base + ".log"
    out = base + ".out"
    res = dict(harness=fn, pretty=pretty, status="inconclusive", reason="", checks=[],
               stats={}, wall_s=0.0, log=log, spec=spec,
               stubs=meta["attributes"].get("stubs", []), unwind=meta["attributes"].get("unwind_value"))
    t0 = time.time()
    mangled = meta["mangled_name"]
    try:
        with open(log, "w") as lf:
            steps = [
                ["goto-cc", meta["goto_copy"], KANI_LIB_C, "-o", out],
                ["goto-cc", out, "--function", mangled, "-o", out],
                ["goto-instrument", "--add-library", "--no-malloc-may-fail", out, out],
                ["goto-instrument", "--generate-function-body-options", "assert-false-assume-false",
                 "--generate-function-body", ".*", "--drop-unused-functions", out, out],
                ["goto-instrument", "--ensure-one-backedge-per-target", out, out],
            ]
            for c in steps:
                rc = sh(c, lf, timeout=600, mem=spec.mem)
                if rc != 0:
                    res["reason"] = f"{c[0]} failed (rc={rc})"
                    return res
            cb = ["cbmc"] + CBMC_FLAGS + ["--max-field-sensitivity-array-size", str(spec.fsarray)]
            if res["unwind"] is not None:
                cb += ["--unwind", str(res["unwind"])]
            if spec.unwindset:
                loops = show_loops(out)
                us = []
                for rx, n in spec.unwindset:
                    hit = False
                    for lid, _file, _line, func in loops:
                        idx = lid.rsplit(".", 1)[-1]
                        if re.search(rx, f"{func}#{idx}"):
                            us.append(f"{lid}:{n}")
                            hit = True
                    if not hit:
                        lf.write(f"# note: unwindset pattern {rx!r} matched no loop\n")
                if us:
                    cb += ["--unwindset", ",".join(us)]
                    res["unwindset_labels"] = ",".join(us)
            cb += [out, "--verbosity", "8"]
            res["cbmc_cmd"] = cb
            lf.write("$ " + " ".join(cb) + "\n")
            lf.flush()
            cbout = base + ".cbmc.txt"
            with open(cbout, "w") as co:
                # drop per-iteration unwinding chatter, keep everything else
                p1 = subprocess.Popen(["/usr/bin/time", "-f", "MAXRSS_KB=%M", "-o", base + ".time"] + cb,
                                      stdout=subprocess.PIPE, stderr=subprocess.STDOUT,
                                      preexec_fn=limit(spec.mem))
                p2 = subprocess.Popen(["grep", "-a", "--line-buffered", "-v", "-E", "^(Unwinding loop|aborting path)"],
                                      stdin=p1.stdout, stdout=co)
                p1.stdout.close()
                try:
                    p1.wait(timeout=spec.timeout)
                except subprocess.TimeoutExpired:
                    try:
                        os.killpg(p1.pid, 9)
                    except Exception:
                        p1.kill()
                    p1.wait()
                    p2.wait()
                    res["reason"] = f"timeout after {spec.timeout}s (harness cap)"
                    res["stats"] = parse_stats(open(cbout, errors="replace").read())
                    return res
                p2.wait()
            txt = open(cbout, errors="replace").read()
            res["stats"] = parse_stats(txt)
            try:
                mrss = re.search(r"MAXRSS_KB=(\d+)", open(base + ".time").read())
                res["stats"]["peak_rss_mb"] = int(mrss.group(1)) // 1024 if mrss else None
            except OSError:
                pass
            res["rc"] = p1.returncode
            if "** Results:" not in txt:
                if "Out of memory" in txt or "std::bad_alloc" in txt or p1.returncode in (-6, -9, -11, 134, 137):
                    res["reason"] = f"CBMC out of memory / aborted (rc={p1.returncode}, cap {spec.mem} GB)"
                else:
                    res["reason"] = f"CBMC produced no result (rc={p1.returncode})"
                return res
            res["checks"] = parse_results(txt)
            classify(res)
            if "ran out of memory" in txt and res["status"] != "counterexample":
                res["status"] = "inconclusive"
                res["reason"] = f"SAT solver ran out of memory (cap {spec.mem} GB): " + res["reason"][:200]
            return res
    except subprocess.TimeoutExpired:
        res["reason"] = "goto pipeline timeout"
        return res
    except Exception as e:  # noqa
        res["reason"] = f"driver error: {e!r}"
        return res
    finally:
        res["wall_s"] = round(time.time() - t0, 2)
        try:
            # the binary of a counterexample run is kept for the trace extraction in replay() (removed there)
            if not os.environ.get("VERIF_KEEP") and res.get("status") != "counterexample":
                os.remove(out)
        except OSError:
            pass


def parse_stats(txt):
    st = {}
    m = re.search(r"size of program expression: (\d+) steps", txt)
    if m:
        st["steps"] = int(m.group(1))
    m = re.search(r"Generated (\d+) VCC\(s\), (\d+) remaining", txt)
    if m:
        st["vccs"] = int(m.group(1))
        st["vccs_remaining"] = int(m.group(2))
    m = re.search(r"Runtime Symex: ([\d.e+-]+)s", txt)
    if m:
        st["symex_s"] = float(m.group(1))
    st["solver_s"] = round(sum(float(x) for x in re.findall(r"Runtime Solver: ([\d.e+-]+)s", txt)), 3)
    st["decision_s"] = round(sum(float(x) for x in re.findall(r"Runtime decision procedure: ([\d.e+-]+)s", txt)), 3)
    m = re.findall(r"(\d+) variables, (\d+) clauses", txt)
    if m:
        st["sat_vars"] = int(m[-1][0])
        st["sat_clauses"] = int(m[-1][1])
    st["solver_queries"] = len(re.findall(r"SAT checker: instance is", txt))
    return st


def parse_results(txt):
    body = txt.split("** Results:", 1)[1]
    checks = []
    cur_file = cur_fn = None
    pending = None
    for line in body.splitlines():
        if pending is not None:
            pending["desc"] += " " + line.strip()
            m = re.search(r": (SUCCESS|FAILURE|UNKNOWN|ERROR)$", line)
            if m:
                pending["status"] = m.group(1)
                pending["desc"] = pending["desc"][: -len(m.group(0))]
                checks.append(pending)
                pending = None
            continue
        if line.startswith("** ") or line.startswith("VERIFICATION"):
            continue
        m = re.match(r"^\[(.+?)\] line (\d+) (.*)$", line)
        if m:
            pid, ln, rest = m.group(1), int(m.group(2)), m.group(3)
            # property id may itself contain "] " rarely; accept first match
            cls = pid.rsplit(".", 2)[-2] if pid.count(".") >= 2 else "?"
            c = dict(id=pid, cls=cls, file=cur_file, function=cur_fn, line=ln, desc=rest, status=None)
            ms = re.search(r": (SUCCESS|FAILURE|UNKNOWN|ERROR)$", rest)
            if ms:
                c["status"] = ms.group(1)
                c["desc"] = rest[: -len(ms.group(0))]
                checks.append(c)
            else:
                pending = c
            continue
        m = re.match(r"^(\S.*?) function (.+)$", line)
        if m:
            cur_file, cur_fn = m.group(1), m.group(2)
    for c in checks:
        c["desc"] = re.sub(r"\[?KANI_CHECK_ID_[^\]\s]*\]?\s*", "", c["desc"]).strip()
    return checks


def classify(res):
    checks = res["checks"]
    real = [c for c in checks if c["cls"] != "reachability_check"]
    covers = [c for c in real if c["cls"] == "cover"]
    others = [c for c in real if c["cls"] != "cover"]
    res["n_checks"] = len(others)
    res["n_success"] = sum(1 for c in others if c["status"] == "SUCCESS")
    res["n_unwind"] = sum(1 for c in others if c["cls"] == "unwind")
    failed = [c for c in others if c["status"] != "SUCCESS"]
    incon = [c for c in failed if c["cls"] in INCONCLUSIVE_CLASSES or c["status"] in ("UNKNOWN", "ERROR")]
    cex = [c for c in failed if c not in incon]
    # covers: kani::cover!(c, "msg") is assert(!c): FAILURE = satisfied.
    # convention: message starting with "UNREACHABLE" must be unsatisfied (cut never reached)
    cov_missing, cov_bad = [], []
    for c in covers:
        sat = c["status"] == "FAILURE"
        if c["desc"].startswith("UNREACHABLE"):
            if sat:
                cov_bad.append(c)
        elif not sat:
            cov_missing.append(c)
    res["covers"] = [dict(desc=c["desc"], line=c["line"], satisfied=(c["status"] == "FAILURE")) for c in covers]
    res["failed"] = cex
    res["incon_checks"] = incon
    if cex or cov_bad:
        res["status"] = "counterexample"
        res["failed"] = cex + cov_bad
        res["reason"] = "; ".join(f"{c['function']}: {c['desc']} @ {c['file']}:{c['line']}" for c in res["failed"][:4])
    elif incon:
        res["status"] = "inconclusive"
        res["reason"] = "; ".join(f"{c['cls']}: {c['desc']} in {c['function']} @ {c['file']}:{c['line']}" for c in incon[:4])
    elif cov_missing:
        res["status"] = "inconclusive"
        res["reason"] = "vacuity witness not satisfied: " + "; ".join(f"{c['desc']} (line {c['line']})" for c in cov_missing[:4])
    elif not covers:
        res["status"] = "inconclusive"
        res["reason"] = "harness has no kani::cover! vacuity witness"
    else:
        res["status"] = "proved"
        res["reason"] = ""


# --------------------------------------------------------------------------
# known findings
# --------------------------------------------------------------------------
def load_known():
    p = os.path.join(VERIF, "known_findings.json")
    if not os.path.exists(p):
        return []
    return json.load(open(p)).get("findings", [])


def match_known(known, prop, fn, chk):
    for k in known:
        if k["property"] != prop:
            continue
        if not fnmatch.fnmatchcase(fn, k.get("harness", "*")):
            continue
        if k.get("function") and k["function"] not in (chk.get("function") or ""):
            continue
        if k.get("file") and not (chk.get("file") or "").endswith(k["file"]):
            continue
        if k.get("desc") and not re.search(k["desc"], chk.get("desc") or ""):
            continue
        return k
    return None


# --------------------------------------------------------------------------
# replay: kani concrete playback of the counterexample against the real
# (un-stubbed) code, in a scratch copy of /repo, dev and release profile
# --------------------------------------------------------------------------

def trace_values(r, log_path):
    """Re-runs CBMC on the kept binary for ONE failed property with --trace and extracts the values of the harness's
    kani::any() calls in execution order - the rule kani-driver 0.68 uses (assignments to goto_symex$$return_value*
    inside kani::any_raw_*), read from CBMC's text trace so that memory stays at CBMC's own footprint (kani-driver's
    JSON route needs tens of GB on the larger harnesses).  Returns (list of byte lists, property id) or (None, why)."""
    cb = r.get("cbmc_cmd")
    if not cb or not r.get("failed"):
        return None, "no cbmc command / failed check recorded"
    out = next((a for a in cb if a.endswith(".out")), None)
    if not out or not os.path.exists(out):
        return None, "goto binary not kept"
    spec = r["spec"]
    last = "no failed property produced a trace"
    for chk in r["failed"][:3]:
        cmd = [a for a in cb if a not in ("--verbosity", "8")] + ["--trace", "--property", chk["id"]]
        vals = []
        found = False
        with open(log_path, "a") as lf:
            lf.write("$ " + " ".join(cmd) + "\n")
            p = subprocess.Popen(cmd, stdout=subprocess.PIPE, stderr=subprocess.STDOUT, text=True, errors="replace",
                                 preexec_fn=limit(max(spec.mem, 16)))
            timer = threading.Timer(max(spec.timeout, 60) * 2, p.kill)
            timer.start()
            try:
                in_any = False
                for line in p.stdout:
                    if line.startswith("Trace for "):
                        found = True
                        continue
                    if not found:
                        if not line.startswith(("Unwinding loop", "aborting path")):
                            lf.write(line)
                        continue
                    if line.startswith("State "):
                        m = re.search(r" function (.*) line \d+ thread", line)
                        in_any = bool(m and m.group(1).startswith("kani::any_raw_"))
                        continue
                    if in_any and line.startswith("  goto_symex$$return_value"):
                        m = re.match(r"^  (\S+?)=(.*) \((.*)\)\s*$", line.rstrip("\n"))
                        if not m:
                            continue
                        interp, bits = m.group(2), m.group(3)
                        groups = [g for g in bits.strip("{} ").split(",")] if bits.lstrip().startswith("{") else [bits]
                        for g in groups:
                            b = g.replace(" ", "").strip("{}")
                            if not b or len(b) % 8 or set(b) - {"0", "1"}:
                                continue
                            by = [int(b[i:i + 8], 2) for i in range(0, len(b), 8)]
                            by.reverse()  # CBMC prints most significant byte first
                            vals.append((by, interp if len(groups) == 1 else ""))
            finally:
                timer.cancel()
                p.wait()
        if found:
            return vals, chk["id"]
        last = f"cbmc --trace gave no trace for {chk['id']} (rc={p.returncode})"
    return None, last


def trace_playback_test(r, vals):
    fn = r["harness"]
    lines = ["#[test]", f"fn kani_concrete_playback_{fn}_trace() {{", "    let concrete_vals: Vec<Vec<u8>> = vec!["]
    for by, interp in vals:
        if interp:
            lines.append(f"        // {interp}")
        lines.append("        vec![" + ", ".join(str(x) for x in by) + "],")
    lines += ["    ];", f"    kani::concrete_playback_run(concrete_vals, {fn});", "}"]
    return "\n".join(lines) + "\n"


def replay(prop, r, keep=False):
    """returns (verdict, path, detail); verdict in reproduced/not-reproduced/error"""
    fn, pretty, spec = r["harness"], r["pretty"], r["spec"]
    rdir = os.path.join(REPLAY_DIR, prop)
    os.makedirs(rdir, exist_ok=True)
    rpath = os.path.join(rdir, fn + ".rs")
    if spec.replay == "none":
        return "error", rpath, "harness declares replay: none"
    snapshot = os.path.join(WORK, prop, "harness-snapshot")
    first = None
    vals, why = trace_values(r, os.path.join(WORK, prop, "run", fn + ".trace.log"))
    out_bin = next((a for a in r.get("cbmc_cmd", []) if a.endswith(".out")), None)
    if out_bin and not os.environ.get("VERIF_KEEP"):
        try:
            os.remove(out_bin)
        except OSError:
            pass
    if vals is not None:
        first = write_and_run_replay(prop, r, rpath, [trace_playback_test(r, vals)], snapshot,
                                     f"values read from CBMC's trace of {why}")
        if first[0] == "reproduced":
            return first[0], rpath, first[1]
    # second opinion: Kani's own concrete playback (all failed properties; needs far more memory)
    target = os.path.join(WORK, "target")
    cmd = ["cargo", "kani", "-p", "rustic_core", "--target-dir", target, "-Z", "stubbing",
           "-Z", "unstable-options", "-Z", "concrete-playback", "--concrete-playback=print",
           "--exact", "--harness", pretty, "--harness-timeout", f"{max(spec.timeout, 60) * 3}s"]
    cmd += ["--cbmc-args", "--max-field-sensitivity-array-size", str(spec.fsarray)]
    labels = r.get("unwindset_labels")
    if spec.unwindset and labels:
        cmd += ["--unwindset", labels]
    env = dict(os.environ, CARGO_NET_OFFLINE="true", CARGO_TERM_COLOR="never")
    lockf = open(os.path.join(WORK, "codegen.lock"), "w")
    fcntl.flock(lockf, fcntl.LOCK_EX)
    try:
        p = subprocess.run(cmd, cwd=REPO, env=env, stdout=subprocess.PIPE, stderr=subprocess.STDOUT,
                           text=True, errors="replace", preexec_fn=limit(56))
    finally:
        fcntl.flock(lockf, fcntl.LOCK_UN)
        lockf.close()
    open(os.path.join(WORK, prop, "run", fn + ".playback.log"), "w").write(p.stdout)
    tests = re.findall(r"```\s*\n(.*?)```", p.stdout, re.S)
    tests = [t for t in tests if "kani::concrete_playback_run" in t]
    if not tests:
        if first is not None:
            return first[0], rpath, first[1] + " [kani playback produced no test]"
        return "error", rpath, "no trace values (" + str(why) + ") and kani produced no concrete playback test (see playback.log)"
    verdict, detail = write_and_run_replay(prop, r, rpath, tests, snapshot, "kani concrete playback")
    if first is not None and verdict != "reproduced":
        detail = f"trace values: {first[1]}; kani playback: {detail}"
    return verdict, rpath, detail


def write_and_run_replay(prop, r, rpath, tests, snapshot, origin):
    pretty, spec = r["pretty"], r["spec"]
    uniq = []
    seen_names = set()
    for t in tests:
        mname = re.search(r"fn (kani_concrete_playback_[A-Za-z0-9_]+)", t)
        key = mname.group(1) if mname else t
        if key not in seen_names:
            seen_names.add(key)
            uniq.append(t)
    body = ""
    names = []
    for i, t in enumerate(uniq):
        # drop the generated doc comment (a multi-line assertion text breaks it) - keep from #[test] on
        if "#[test]" in t:
            t = t[t.index("#[test]"):]
        t = t.replace("#[test]", "#[test]\n")
        m = re.search(r"fn (kani_concrete_playback_[A-Za-z0-9_]+)", t)
        if m:
            names.append(m.group(1))
        # the generated test calls the harness by bare name
        t = re.sub(r"kani::concrete_playback_run\(\s*concrete_vals\s*,\s*([A-Za-z0-9_]+)\s*\)",
                   r"crate::error::verif_harness::set_replay(); kani::concrete_playback_run(concrete_vals, super::verif_harness::\1)", t)
        body += t + "\n"
    failing = "; ".join(f"{c['function']}: {c['desc']} @ {c['file']}:{c['line']}" for c in r["failed"][:6])
    header = (f"// replay of a solver counterexample\n// property: {prop}\n// harness: {pretty}\n"
              f"// failing checks: {failing}\n// module file: {module_src(spec.module)}\n"
              f"// values: {origin}\n// re-run: /verif/check --replay {rpath}\n")
    open(rpath, "w").write(header + "#[cfg(kani)]\nmod verif_replay {\n" + body + "}\n")
    return run_replay_file(rpath, snapshot)


def module_src(module):
    p = module.replace("::", "/")
    for cand in (f"crates/core/src/{p}.rs", f"crates/core/src/{p}/mod.rs"):
        if os.path.exists(os.path.join(REPO, cand)):
            return cand
    return f"crates/core/src/{p}.rs"


def run_replay_file(rpath, harness_snapshot=None):
    txt = open(rpath).read()
    m = re.search(r"// module file: (\S+)", txt)
    if not m:
        return "error", "replay file has no module header"
    modfile = m.group(1)
    scratch = f"/tmp/verif-replay-{os.getpid()}-{int(time.time())}"
    try:
        subprocess.run(["rsync", "-a", "--exclude", "target", "--exclude", ".git", REPO + "/", scratch + "/"], check=True)
        body = txt.split("#[cfg(kani)]", 1)[1]
        if harness_snapshot and os.path.isdir(harness_snapshot):
            # the scratch copy includes the harness files as they were when the counterexample was found
            subprocess.run(f"grep -rl '/verif/harness/' {scratch}/crates/core/src | xargs sed -i 's#\"/verif/harness/#\"{harness_snapshot}/#'",
                           shell=True, check=False)
        with open(os.path.join(scratch, modfile), "a") as f:
            f.write("\n#[cfg(kani)]" + body)
        env = dict(os.environ, CARGO_NET_OFFLINE="true", CARGO_TERM_COLOR="never",
                   CARGO_TARGET_DIR=os.path.join(WORK, "replay-target"))
        results = {}
        kani_home = os.path.expanduser("~/.kani/kani-0.68.0")
        for prof in ("dev", "release"):
            # what `cargo kani playback` runs (kani-driver 0.68), plus --release / overflow-checks=off for the
            # profile users run
            flags = ["-Coverflow-checks=" + ("on" if prof == "dev" else "off"), "-Zunstable-options",
                     "-Ztrim-diagnostic-paths=no", "-Zhuman_readable_cgu_names", "-Zalways-encode-mir", "--cfg=kani",
                     "-Zcrate-attr=feature(register_tool)", "-Zcrate-attr=register_tool(kanitool)",
                     "--force-warn", "unstable_features", "--sysroot", kani_home + "/playback",
                     "-L", kani_home + "/playback/lib", "--extern", "force:kani", "--extern",
                     "noprelude,nounused:std=" + kani_home + "/playback/lib/libstd.rlib"]
            penv = dict(env, CARGO_ENCODED_RUSTFLAGS="\x1f".join(flags), RUSTC=kani_home + "/bin/kani-compiler",
                        CARGO_TERM_PROGRESS_WHEN="never", CARGO_PROFILE_RELEASE_LTO="off",
                        CARGO_PROFILE_RELEASE_DEBUG="0")
            cmd = [kani_home + "/toolchain/bin/cargo", "test", "-p=rustic_core", "--lib", "--target",
                   "x86_64-unknown-linux-gnu", "-Zhost-config", "-Ztarget-applies-to-host",
                   '--config=host.rustflags=["--cfg=kani_host"]']
            if prof == "release":
                cmd.append("--release")
            cmd += ["--", "kani_concrete_playback"]
            p = subprocess.run(cmd, cwd=scratch, env=penv, stdout=subprocess.PIPE, stderr=subprocess.STDOUT,
                               text=True, errors="replace")
            logp = rpath + f".{prof}.log"
            open(logp, "w").write(" ".join(cmd) + "\n" + p.stdout[-20000:])
            mt = re.search(r"test result: (\w+)\. (\d+) passed; (\d+) failed", p.stdout)
            if not mt:
                results[prof] = "error"
            elif int(mt.group(3)) > 0:
                results[prof] = "fails"
            elif int(mt.group(2)) > 0:
                results[prof] = "passes"
            else:
                results[prof] = "error"
        detail = f"dev={results['dev']} release={results['release']}"
        if "fails" in results.values():
            return "reproduced", detail
        if "error" in results.values():
            return "error", detail
        return "not-reproduced", detail
    finally:
        shutil.rmtree(scratch, ignore_errors=True)


# --------------------------------------------------------------------------
# evidence
# --------------------------------------------------------------------------
def write_evidence(prop, tier, seed, results, wall, codegen_s, nviol, known_lines, replays, extra_incon=None):
    os.makedirs(EVIDENCE_DIR, exist_ok=True)
    steps = sum(r["stats"].get("steps", 0) for r in results)
    vccs = sum(r["stats"].get("vccs", 0) for r in results)
    funcs = set()
    samples = []
    harn = []
    assumptions = []
    bounds = []
    total = succ = unw = queries = 0
    for r in results:
        spec = r["spec"]
        for c in r["checks"]:
            f = c.get("file") or ""
            if f.startswith("crates/") and c.get("function"):
                funcs.add(c["function"])
        total += r.get("n_checks", 0)
        succ += r.get("n_success", 0)
        unw += r.get("n_unwind", 0)
        queries += r["stats"].get("solver_queries", 0)
        ok = [c for c in r["checks"] if c["status"] == "SUCCESS" and c["cls"] == "assertion"
              and (c.get("file") or "").startswith(("/verif/harness", "crates/"))]
        for c in ok[:3]:
            samples.append(f"{r['harness']}::{c['id']}: {c['desc']} @ {c['file']}:{c['line']} -> SUCCESS")
        harn.append({
            "harness": r["pretty"], "status": r["status"], "reason": r["reason"],
            "unwind": r["unwind"], "unwindset": [f"{a}={b}" for a, b in spec.unwindset],
            "bound": spec.bound, "kernel": spec.kernel, "oracle": spec.oracle, "outside": spec.outside,
            "assumptions": spec.assume, "stubs": [f"{s.get('original')} -> {s.get('replacement')}" if isinstance(s, dict) else str(s) for s in r["stubs"]] + spec.stubnote,
            "checks_total": r.get("n_checks", 0), "checks_success": r.get("n_success", 0),
            "unwinding_assertions": r.get("n_unwind", 0), "cover_witnesses": r.get("covers", []),
            "program_steps": r["stats"].get("steps"), "vccs": r["stats"].get("vccs"),
            "vccs_after_simplification": r["stats"].get("vccs_remaining"),
            "sat_vars": r["stats"].get("sat_vars"), "sat_clauses": r["stats"].get("sat_clauses"),
            "solver_queries": r["stats"].get("solver_queries"),
            "symex_s": r["stats"].get("symex_s"), "solver_s": r["stats"].get("solver_s"),
            "peak_rss_mb": r["stats"].get("peak_rss_mb"),
            "wall_s": r["wall_s"], "timeout_s": spec.timeout, "mem_cap_gb": spec.mem,
        })
        for a in spec.assume:
            if a not in assumptions:
                assumptions.append(a)
        for b in spec.bound:
            bounds.append(f"{r['harness']}: {b}")
        for s in spec.stubnote:
            t = "stub: " + s
            if t not in assumptions:
                assumptions.append(t)
    if not samples:
        samples = [f"{r['harness']}: {r['status']} {r['reason']}" for r in results] or ["no harness ran"]
    ev = {
        "property_id": prop, "tier": tier if tier in ("quick", "thorough") else "thorough", "seed": seed, "level": "model_checking",
        "coverage": {
            "states": max(steps, 0), "transitions": max(vccs, 0),
            "traces_validated_against_impl": len(replays),
            "samples": samples[:40],
            "explanation": "states = CBMC program steps (SSA size) summed over harnesses; transitions = verification "
                           "conditions generated; each harness is decided by CBMC/CaDiCaL for all inputs within its stated bound",
            "engine": "cargo kani 0.68.0 codegen of /repo working tree + goto-cc/goto-instrument/cbmc 6.11.0 (cadical)",
            "functions_encoded": sorted(funcs),
            "harnesses": harn, "bounds": bounds,
            "checks_total": total, "checks_success": succ, "unwinding_assertions": unw,
            "solver_queries": queries,
            "symex_s": round(sum(r["stats"].get("symex_s", 0) for r in results), 2),
            "solver_s": round(sum(r["stats"].get("solver_s", 0) for r in results), 2),
            "codegen_s": round(codegen_s, 1),
            "harnesses_proved": sum(1 for r in results if r["status"] == "proved"),
            "harnesses_counterexample": sum(1 for r in results if r["status"] == "counterexample"),
            "harnesses_inconclusive": sum(1 for r in results if r["status"] == "inconclusive"),
            "inconclusive": [f"{r['harness']}: {r['reason']}" for r in results if r["status"] == "inconclusive"] + (extra_incon or []),
            "known_findings_reported": known_lines,
            "replays": replays,
        },
        "assumptions": assumptions,
        "wall_s": round(wall, 1),
        "violations": nviol,
    }
    # experimental runs never overwrite the evidence of the registered tiers
    path = os.path.join(EVIDENCE_DIR, prop + (".json" if tier in ("quick", "thorough") else ".experimental.json"))
    tmp = path + ".tmp"
    json.dump(ev, open(tmp, "w"), indent=1)
    os.replace(tmp, path)
    return path


# --------------------------------------------------------------------------
def main():
    ap = argparse.ArgumentParser()
    ap.add_argument("prop", nargs="?")
    ap.add_argument("--tier", default=os.environ.get("VERIF_TIER", "quick"))
    ap.add_argument("--only")
    ap.add_argument("--jobs", type=int, default=int(os.environ.get("VERIF_JOBS", "0")))
    ap.add_argument("--no-replay", action="store_true")
    ap.add_argument("--list", action="store_true")
    ap.add_argument("--replay")
    a = ap.parse_args()
    seed = int(os.environ.get("VERIF_SEED", "0") or 0)
    specs = parse_harness_files()
    if a.list:
        for s in specs:
            print(",".join(s.props), s.tier, s.module, " ".join(s.names))
        return 0
    if a.replay:
        v, d = run_replay_file(a.replay)
        print(f"replay {a.replay}: {v} ({d})")
        return 1 if v == "reproduced" else (0 if v == "not-reproduced" else 2)
    prop = a.prop
    tier = a.tier if a.tier in ("quick", "thorough", "experimental") else "quick"
    t0 = time.time()
    os.makedirs(os.path.join(WORK, prop), exist_ok=True)
    # one run per property at a time (runs share WORK/<prop>)
    proplock = open(os.path.join(WORK, prop, "run.lock"), "w")
    fcntl.flock(proplock, fcntl.LOCK_EX)
    sel = select(specs, prop, tier, a.only)
    if not sel:
        print(f"no harness registered for {prop} ({tier})")
        write_evidence(prop, tier, seed, [], 0.0, 0.0, 0, [], [], ["no harness registered"])
        return 2
    # VERIF_SEED only permutes the order in which harnesses are scheduled
    if seed:
        import random
        random.Random(seed).shuffle(sel)
    print(f"[{prop}/{tier}] {len(sel)} harness(es); codegen from {REPO} working tree ...", flush=True)
    snap = os.path.join(WORK, prop, "harness-snapshot")
    shutil.rmtree(snap, ignore_errors=True)
    shutil.copytree(HARNESS_DIR, snap)
    metas, cg_s, err = run_codegen(prop, sel, os.path.join(WORK, prop, "codegen.log"))
    if err:
        print(f"INCONCLUSIVE property={prop}: {err}")
        write_evidence(prop, tier, seed, [], time.time() - t0, cg_s, 0, [], [], [err])
        return 2
    print(f"[{prop}] codegen {cg_s:.0f}s; running CBMC", flush=True)
    # memory-aware scheduling: at most `jobs` at once and at most 60 GB of declared caps (caps, not usage: quick-tier harnesses peak at 2-10 GB)
    jobs = a.jobs or 8
    results = []
    lock = threading.Condition()
    used = {"mem": 0}

    def task(item):
        pretty, fn, spec = item
        with lock:
            while used["mem"] + spec.mem > 60 and used["mem"] > 0:
                lock.wait()
            used["mem"] += spec.mem
        try:
            r = run_harness(pretty, fn, spec, metas[pretty], prop)
        finally:
            with lock:
                used["mem"] -= spec.mem
                lock.notify_all()
        st = r["stats"]
        print(f"  {r['status']:<14} {fn}  wall={r['wall_s']}s symex={st.get('symex_s', '?')}s solver={st.get('solver_s', '?')}s "
              f"rss={st.get('peak_rss_mb', '?')}MB steps={st.get('steps', '?')} vccs={st.get('vccs', '?')} checks={r.get('n_success', '?')}/{r.get('n_checks', '?')}"
              + (f"  -- {r['reason'][:300]}" if r["reason"] else ""), flush=True)
        return r

    with ThreadPoolExecutor(max_workers=jobs) as ex:
        results = list(ex.map(task, sorted(sel, key=lambda x: -x[2].timeout) if not seed else sel))

    known = load_known()
    known_lines, replays, violations = [], [], []
    incon = [r for r in results if r["status"] == "inconclusive"]
    for r in results:
        if r["status"] != "counterexample":
            continue
        unknown_checks = []
        for c in r["failed"]:
            k = match_known(known, prop, r["harness"], c)
            if k:
                line = f"KNOWN-FINDING: property={prop} {k['role']}: {k['what']} [{r['harness']}: {c['desc']} @ {c['file']}:{c['line']}]"
                if line not in known_lines:
                    known_lines.append(line)
            else:
                unknown_checks.append(c)
        if not unknown_checks:
            r["status"] = "known-finding"
            continue
        r["failed"] = unknown_checks
        if a.no_replay:
            verdict, rpath, detail = "skipped", "-", "replay disabled (--no-replay)"
        else:
            print(f"[{prop}] counterexample in {r['harness']}: replaying natively ...", flush=True)
            verdict, rpath, detail = replay(prop, r)
        replays.append(dict(harness=r["harness"], verdict=verdict, detail=detail, path=rpath,
                            failing=[f"{c['function']}: {c['desc']} @ {c['file']}:{c['line']}" for c in unknown_checks[:6]]))
        if verdict == "reproduced":
            violations.append((r, rpath))
        else:
            r["status"] = "inconclusive"
            r["reason"] = f"counterexample ({r['reason']}) but native replay: {verdict} ({detail})"
            incon.append(r)
    for l in known_lines:
        print(l)
    for r, rpath in violations:
        print(f"  failing: {r['reason']}")
        print(f"VIOLATION property={prop} replay={rpath}")
    wall = time.time() - t0
    ev = write_evidence(prop, tier, seed, results, wall, cg_s, len(violations), known_lines, replays)
    proved = sum(1 for r in results if r["status"] == "proved")
    print(f"[{prop}/{tier}] {proved}/{len(results)} proved within bound, {len(violations)} violation(s), "
          f"{len(known_lines)} known finding(s), {len(incon)} inconclusive; {wall:.0f}s; evidence {ev}")
    if violations:
        return 1
    if incon:
        for r in incon:
            print(f"INCONCLUSIVE property={prop} harness={r['harness']}: {r['reason'][:400]}")
        return 2
    return 0


if __name__ == "__main__":
    sys.exit(main())
